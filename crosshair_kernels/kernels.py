"""CrossHair harnesses (second, independent symbolic engine) for the integer / list kernels of shapepy.
Run by checks/xhair.py with `crosshair check --report_all`; only "Confirmed over all paths" counts."""
from typing import List, Tuple

from shapepy.curve import Math
from shapepy.shape import FollowPath


def comb_is_binomial(n: int, i: int) -> int:
    """
    pre: 0 <= i <= n <= 6
    post: __return__ * _fact(i) * _fact(n - i) == _fact(n)
    """
    return Math.comb(n, i)


def comb_symmetric(n: int, i: int) -> bool:
    """
    pre: 0 <= i <= n <= 6
    post: __return__
    """
    return Math.comb(n, i) == Math.comb(n, n - i)


def _fact(k: int) -> int:
    r = 1
    for j in range(2, k + 1):
        r *= j
    return r


def rotation_is_recognised(xs: List[int], k: int) -> bool:
    """
    pre: 1 <= len(xs) <= 5 and 0 <= k < len(xs) and len(set(xs)) == len(xs)
    post: __return__
    """
    ys = xs[k:] + xs[:k]
    return FollowPath.is_rotation(xs, ys) and FollowPath.is_rotation(ys, xs)


def non_rotation_is_rejected(xs: List[int], ys: List[int]) -> bool:
    """
    pre: 1 <= len(xs) <= 4 and len(ys) == len(xs) and len(set(xs)) == len(xs)
    post: __return__
    """
    truth = any(ys == xs[k:] + xs[:k] for k in range(len(xs)))
    return FollowPath.is_rotation(xs, ys) == truth


def filter_rotations_keeps_one_per_class(xs: List[int], k: int, j: int) -> bool:
    """
    pre: 2 <= len(xs) <= 4 and 0 <= k < len(xs) and 0 <= j < len(xs) and len(set(xs)) == len(xs)
    post: __return__
    """
    a = tuple(xs)
    b = tuple(xs[k:] + xs[:k])
    c = tuple(xs[j:] + xs[:j])
    other = tuple(reversed(xs))
    kept = FollowPath.filter_rotations([a, other, b, c, a])
    # one representative of the class of a, and the reversed list only if it is not a rotation of a
    rev_is_rot = any(list(other) == xs[m:] + xs[:m] for m in range(len(xs)))
    return len(kept) == (1 if rev_is_rot else 2) and kept[0] == a
