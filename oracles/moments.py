"""Exact moments of regions bounded by polygons / Bezier chains by term-wise integration of
x(t)^(a+1) y(t)^b y'(t) / (a+1) (Green's theorem is the trusted mathematics).  Generic over the
number type: `q(n, d)` builds the rational constant n/d (Fraction or z3 RatVal)."""
from __future__ import annotations

from fractions import Fraction
from math import comb

from oracles.bezier import ipow


def poly_mul(p, r):
    out = [0] * (len(p) + len(r) - 1)
    for i, a in enumerate(p):
        for j, b in enumerate(r):
            out[i + j] = out[i + j] + a * b
    return out


def poly_pow(p, e, one):
    r = [one]
    for _ in range(e):
        r = poly_mul(r, p)
    return r


def monomial_coeffs(ctrl, one):
    """power-basis coefficients (in t) of the Bernstein polynomial with control values ctrl"""
    d = len(ctrl) - 1
    out = []
    for k in range(d + 1):
        c = 0 * ctrl[0]
        for i in range(k + 1):
            c = c + (comb(d, k) * comb(k, i) * (-1) ** (k - i)) * ctrl[i]
        out.append(c)
    return out


def segment_moment(X, Y, a, b, q):
    """int_0^1 x(t)^(a+1) y(t)^b y'(t) dt / (a+1) for one Bezier segment with control values X, Y"""
    one = q(1, 1)
    px = monomial_coeffs(X, one)
    py = monomial_coeffs(Y, one)
    dy = [(k * py[k]) for k in range(1, len(py))] or [0 * py[0]]
    integrand = poly_mul(poly_mul(poly_pow(px, a + 1, one), poly_pow(py, b, one)), dy)
    tot = 0 * one
    for k, c in enumerate(integrand):
        tot = tot + c * q(1, k + 1)
    return tot * q(1, a + 1)


def chain_moment(segments, a, b, q):
    """segments: list of (X, Y) control-value lists"""
    tot = 0 * q(1, 1)
    for X, Y in segments:
        tot = tot + segment_moment(X, Y, a, b, q)
    return tot


def polygon_segments(vs):
    n = len(vs)
    return [([vs[i][0], vs[(i + 1) % n][0]], [vs[i][1], vs[(i + 1) % n][1]]) for i in range(n)]


def qfrac(n, d):
    return Fraction(n, d)


def qz3(n, d):
    import z3

    return z3.RatVal(n, d)
