"""Region-membership oracles, independent of shapepy's algorithms.

Two implementations of the same mathematics (signed crossing number of the ray
y = p.y, x > p.x with half-open edges): one builds z3 terms over symbolic
vertices/points, the other evaluates exactly on Fractions (used by replays).
A *region description* (`Reg`) is a Boolean expression tree over polygons:
  ("poly", [(x,y),...], positive: bool)   inside a ccw polygon / outside a cw one
  ("and", [..]) ("or", [..]) ("not", r) ("empty",) ("whole",)
Coordinates are z3 terms in the symbolic version and Fractions in the exact one.
"""
from __future__ import annotations

from fractions import Fraction

import z3

TOL = Fraction(1, 10**6)  # the library's documented point-on-curve tolerance
# the band predicate uses a slightly larger distance so that inputs that the library may
# already treat as boundary (its own comparisons carry float rounding of 1e-6) are excluded
BAND = Fraction(1, 10**6) + Fraction(1, 10**9)


def rv(f):
    f = Fraction(f)
    return z3.RatVal(f.numerator, f.denominator)


# ------------------------------------------------------------------ z3 terms
# Coordinates are Sym / Fraction / int values: all arithmetic is done on canonical
# polynomials (symx.core) so that what is linear stays syntactically linear; only the sign
# atoms and the Boolean structure are handed to z3.

from symx.core import Sym, SymBool


def zb(c):
    if isinstance(c, SymBool):
        d = c.diff
        if d.d is None and d.n.is_const():
            from symx.core import OPS

            return z3.BoolVal(bool(OPS[c.op](d.n.cval())))
        return c.z3()
    if isinstance(c, (bool,)):
        return z3.BoolVal(c)
    return c


def zand(*cs):
    return z3.And([zb(c) for c in cs])


def zor(*cs):
    return z3.Or([zb(c) for c in cs])


def z_crossing(px, py, vs):
    terms = []
    n = len(vs)
    for i in range(n):
        (ax, ay), (bx, by) = vs[i], vs[(i + 1) % n]
        cr = (bx - ax) * (py - ay) - (by - ay) * (px - ax)
        up = zand(ay <= py, py < by, cr > 0)
        dn = zand(by <= py, py < ay, cr < 0)
        terms.append(z3.If(up, 1, z3.If(dn, -1, 0)))
    return z3.Sum(terms) if len(terms) > 1 else terms[0]


def z_in(reg, px, py):
    k = reg[0]
    if k == "poly":
        w = z_crossing(px, py, reg[1])
        return (w == 1) if reg[2] else (w == 0)
    if k == "curved":
        from oracles import curved

        return curved.z_in_curved(reg, px, py)
    if k == "and":
        return z3.And([z_in(r, px, py) for r in reg[1]])
    if k == "or":
        return z3.Or([z_in(r, px, py) for r in reg[1]])
    if k == "not":
        return z3.Not(z_in(reg[1], px, py))
    if k == "xor":
        return z3.Xor(z_in(reg[1], px, py), z_in(reg[2], px, py))
    if k == "empty":
        return z3.BoolVal(False)
    if k == "whole":
        return z3.BoolVal(True)
    raise ValueError(k)


def polys_of(reg):
    k = reg[0]
    if k == "poly":
        return [reg[1]]
    if k in ("and", "or"):
        return [p for r in reg[1] for p in polys_of(r)]
    if k == "not":
        return polys_of(reg[1])
    if k == "xor":
        return polys_of(reg[1]) + polys_of(reg[2])
    return []


def _zabs_ge(x, bound):
    """|x| >= bound"""
    return zor(x >= bound, -x >= bound)


def z_seg_off(px, py, a, b, d):
    """sufficient condition for dist(p, segment ab) >= d that is linear whenever the edge
    direction is concrete: p lies outside the axis box of ab grown by d, or the distance to
    the supporting line is >= d because |cross| >= d*(|dx|+|dy|) >= d*|ab|.  Every point at
    distance >= sqrt(2)*d from the segment satisfies it."""
    (ax, ay), (bx, by) = a, b
    dx = bx - ax
    dy = by - ay
    cr = dx * (py - ay) - dy * (px - ax)
    outs = []
    for lo_hi in ((ax, bx, px), (ay, by, py)):
        u, v, q = lo_hi
        # q <= min(u,v) - d   or   q >= max(u,v) + d
        outs.append(zand(q <= u - d, q <= v - d))
        outs.append(zand(q >= u + d, q >= v + d))
    # |dx|+|dy| by cases on the signs
    fars = []
    for sx in (1, -1):
        for sy in (1, -1):
            L1 = sx * dx + sy * dy
            fars.append(zand(sx * dx >= 0, sy * dy >= 0, zor(cr >= d * L1, -cr >= d * L1)))
    return z3.Or(outs + fars)


def z_off_boundary(px, py, polys, dist=BAND):
    """p is (surely) at distance >= dist from every edge of every polygon"""
    cs = []
    for vs in polys:
        n = len(vs)
        for i in range(n):
            cs.append(z_seg_off(px, py, vs[i], vs[(i + 1) % n], dist))
    return z3.And(cs) if cs else z3.BoolVal(True)


def z_on_segment(px, py, a, b):
    (ax, ay), (bx, by) = a, b
    cr = (bx - ax) * (py - ay) - (by - ay) * (px - ax)
    dot = (px - ax) * (bx - ax) + (py - ay) * (by - ay)
    L2 = (bx - ax) * (bx - ax) + (by - ay) * (by - ay)
    return zand(cr == 0, dot >= 0, dot <= L2)


def z_clear(polys_a, polys_b, margin=Fraction(1, 10**5)):
    """no near-contact: every vertex of one family is exactly on an edge of the other family or
    (surely) at distance >= margin from it -- the regime in which the library's absolute
    tolerances (1e-6) cannot change an answer"""
    cs = []
    for P, Q in ((polys_a, polys_b), (polys_b, polys_a)):
        for vs in P:
            for v in vs:
                for ws in Q:
                    n = len(ws)
                    for i in range(n):
                        a, b = ws[i], ws[(i + 1) % n]
                        cs.append(z3.Or(z_on_segment(v[0], v[1], a, b), z_seg_off(v[0], v[1], a, b, margin)))
    return z3.And(cs) if cs else z3.BoolVal(True)


def z_on_boundary(px, py, polys):
    cs = []
    for vs in polys:
        n = len(vs)
        for i in range(n):
            cs.append(z_on_segment(px, py, vs[i], vs[(i + 1) % n]))
    return z3.Or(cs) if cs else z3.BoolVal(False)


def z_proper_cross(a, b, c, d):
    """open segments ab and cd cross transversally at a single interior point"""

    def orient(p, q, r):
        return (q[0] - p[0]) * (r[1] - p[1]) - (q[1] - p[1]) * (r[0] - p[0])

    o1, o2 = orient(a, b, c), orient(a, b, d)
    o3, o4 = orient(c, d, a), orient(c, d, b)
    return z3.And(
        zor(zand(o1 > 0, o2 < 0), zand(o1 < 0, o2 > 0)),
        zor(zand(o3 > 0, o4 < 0), zand(o3 < 0, o4 > 0)),
    )


def _orient(p, q, r):
    return (q[0] - p[0]) * (r[1] - p[1]) - (q[1] - p[1]) * (r[0] - p[0])


def z_touch(a, b, c, d):
    """closed segments ab and cd have a common point but do not cross properly (end point on
    the other segment, or collinear overlap): a non-transversal contact"""
    o1, o2 = _orient(a, b, c), _orient(a, b, d)
    o3, o4 = _orient(c, d, a), _orient(c, d, b)

    def opp0(x, y):
        return zor(zand(x >= 0, y <= 0), zand(x <= 0, y >= 0))

    allzero = zand(o1 == 0, o2 == 0, o3 == 0, o4 == 0)

    def ovl(u0, u1, v0, v1):  # closed intervals [min(u), max(u)] and [min(v), max(v)] overlap
        return z3.And(
            zor(u0 <= v0, u0 <= v1, u1 <= v0, u1 <= v1),
            zor(v0 <= u0, v0 <= u1, v1 <= u0, v1 <= u1),
        )

    boxes = z3.And(ovl(a[0], b[0], c[0], d[0]), ovl(a[1], b[1], c[1], d[1]))
    inter = z3.Or(z3.And(z3.Not(allzero), opp0(o1, o2), opp0(o3, o4)), z3.And(allzero, boxes))
    return z3.And(inter, z3.Not(z_proper_cross(a, b, c, d)))


def z_transversal(polys_a, polys_b):
    """every contact between a boundary edge of A and one of B is a proper crossing"""
    cs = []
    for va in polys_a:
        for vb in polys_b:
            na, nb = len(va), len(vb)
            for i in range(na):
                for j in range(nb):
                    cs.append(z3.Not(z_touch(va[i], va[(i + 1) % na], vb[j], vb[(j + 1) % nb])))
    return z3.And(cs) if cs else z3.BoolVal(True)


def z_count_cross(polys_a, polys_b):
    terms = []
    for va in polys_a:
        for vb in polys_b:
            na, nb = len(va), len(vb)
            for i in range(na):
                for j in range(nb):
                    terms.append(z3.If(z_proper_cross(va[i], va[(i + 1) % na], vb[j], vb[(j + 1) % nb]), 1, 0))
    return z3.Sum(terms) if terms else z3.IntVal(0)


# --------------------------------------------------------------------- exact


def x_crossing(p, vs):
    px, py = p
    w = 0
    n = len(vs)
    for i in range(n):
        (ax, ay), (bx, by) = vs[i], vs[(i + 1) % n]
        cr = (bx - ax) * (py - ay) - (by - ay) * (px - ax)
        if ay <= py < by and cr > 0:
            w += 1
        elif by <= py < ay and cr < 0:
            w -= 1
    return w


def x_in(reg, p):
    k = reg[0]
    if k == "poly":
        w = x_crossing(p, reg[1])
        return (w == 1) if reg[2] else (w == 0)
    if k == "curved":
        from oracles import curved

        return curved.x_in_curved(reg, p)
    if k == "and":
        return all(x_in(r, p) for r in reg[1])
    if k == "or":
        return any(x_in(r, p) for r in reg[1])
    if k == "not":
        return not x_in(reg[1], p)
    if k == "xor":
        return x_in(reg[1], p) != x_in(reg[2], p)
    if k == "empty":
        return False
    if k == "whole":
        return True
    raise ValueError(k)


def x_dist2_seg(p, a, b):
    px, py = p
    (ax, ay), (bx, by) = a, b
    dx, dy = bx - ax, by - ay
    L2 = dx * dx + dy * dy
    if L2 == 0:
        return (px - ax) ** 2 + (py - ay) ** 2
    dot = (px - ax) * dx + (py - ay) * dy
    if dot <= 0:
        return (px - ax) ** 2 + (py - ay) ** 2
    if dot >= L2:
        return (px - bx) ** 2 + (py - by) ** 2
    cr = dx * (py - ay) - dy * (px - ax)
    return cr * cr / L2


def x_dist2_boundary(p, polys):
    best = None
    for vs in polys:
        n = len(vs)
        for i in range(n):
            d = x_dist2_seg(p, vs[i], vs[(i + 1) % n])
            if best is None or d < best:
                best = d
    return best


def x_signed_area2(vs):
    n = len(vs)
    return sum(vs[i][0] * vs[(i + 1) % n][1] - vs[(i + 1) % n][0] * vs[i][1] for i in range(n))


def x_proper_cross(a, b, c, d):
    def orient(p, q, r):
        return (q[0] - p[0]) * (r[1] - p[1]) - (q[1] - p[1]) * (r[0] - p[0])

    o1, o2, o3, o4 = orient(a, b, c), orient(a, b, d), orient(c, d, a), orient(c, d, b)
    return o1 * o2 < 0 and o3 * o4 < 0


def x_moment(vs, a, b):
    """exact integral of x^a y^b over the polygon (signed by orientation), by term-wise exact
    integration of x(t)^(a+1) y(t)^b y'(t) / (a+1) over each edge"""
    from math import comb

    tot = Fraction(0)
    n = len(vs)
    for i in range(n):
        (x0, y0), (x1, y1) = vs[i], vs[(i + 1) % n]
        dx, dy = x1 - x0, y1 - y0
        # x(t)^(a+1) = sum_i C(a+1,i) x0^(a+1-i) dx^i t^i ; y(t)^b similarly
        for i1 in range(a + 2):
            cx = comb(a + 1, i1) * x0 ** (a + 1 - i1) * dx**i1
            if not cx:
                continue
            for j1 in range(b + 1):
                cy = comb(b, j1) * y0 ** (b - j1) * dy**j1
                tot += cx * cy * dy * Fraction(1, i1 + j1 + 1)
    return tot / (a + 1)


def x_seg_intersect(a, b, c, d):
    o1, o2, o3, o4 = _orient(a, b, c), _orient(a, b, d), _orient(c, d, a), _orient(c, d, b)
    if o1 == 0 and o2 == 0 and o3 == 0 and o4 == 0:
        def ovl(u0, u1, v0, v1):
            return max(min(u0, u1), min(v0, v1)) <= min(max(u0, u1), max(v0, v1))
        return ovl(a[0], b[0], c[0], d[0]) and ovl(a[1], b[1], c[1], d[1])
    return o1 * o2 <= 0 and o3 * o4 <= 0


def x_transversal(polys_a, polys_b):
    for va in polys_a:
        for vb in polys_b:
            na, nb = len(va), len(vb)
            for i in range(na):
                for j in range(nb):
                    e = (va[i], va[(i + 1) % na], vb[j], vb[(j + 1) % nb])
                    if x_seg_intersect(*e) and not x_proper_cross(*e):
                        return False
    return True


def x_crossings(polys_a, polys_b):
    """list of (ia, i, jb, j, u, v) for every proper crossing, exact parameters"""
    out = []
    for ia, va in enumerate(polys_a):
        for jb, vb in enumerate(polys_b):
            na, nb = len(va), len(vb)
            for i in range(na):
                for j in range(nb):
                    a, b, c, d = va[i], va[(i + 1) % na], vb[j], vb[(j + 1) % nb]
                    if x_proper_cross(a, b, c, d):
                        v0 = (b[0] - a[0], b[1] - a[1])
                        v1 = (d[0] - c[0], d[1] - c[1])
                        df = (c[0] - a[0], c[1] - a[1])
                        den = v0[0] * v1[1] - v0[1] * v1[0]
                        u = (df[0] * v1[1] - df[1] * v1[0]) / den
                        v = (df[0] * v0[1] - df[1] * v0[0]) / den
                        out.append((ia, i, jb, j, u, v))
    return out
