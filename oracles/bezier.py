"""Bernstein-form oracles (evaluation, derivatives, subdivision) written generically: the same
functions run on z3 real terms (symbolic obligations) and on Fractions (replays)."""
from __future__ import annotations

from math import comb


def ipow(b, e):
    r = 1
    for _ in range(e):
        r = r * b
    return r


def bernstein(coords, t):
    """sum_i C(d,i) (1-t)^(d-i) t^i c_i  for scalar control values"""
    d = len(coords) - 1
    tot = 0
    for i, c in enumerate(coords):
        tot = tot + comb(d, i) * ipow(1 - t, d - i) * ipow(t, i) * c
    return tot


def derivative_coords(coords, k):
    """control values of the k-th derivative (degree d-k); [0] when k > d"""
    d = len(coords) - 1
    if k > d:
        return [0 * coords[0]]
    cur = list(coords)
    fac = 1
    for j in range(k):
        cur = [cur[i + 1] - cur[i] for i in range(len(cur) - 1)]
        fac *= d - j
    return [fac * c for c in cur]


def de_casteljau_piece(coords, ta, tb):
    """control values of the restriction to [ta, tb], reparametrised to [0, 1] (blossoming)"""
    d = len(coords) - 1

    def blossom(args):
        cur = list(coords)
        for r, u in enumerate(args):
            cur = [(1 - u) * cur[i] + u * cur[i + 1] for i in range(len(cur) - 1)]
        return cur[0]

    return [blossom([ta] * (d - i) + [tb] * i) for i in range(d + 1)]
