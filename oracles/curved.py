"""Exact region oracle for shapes bounded by straight pieces and *quadratic* Bezier arcs
(concrete rational control points), independent of shapepy's algorithms.

A closed chain of pieces  (P0,P2)  /  (P0,P1,P2)  is a closed curve.  The crossing parity of
a ray with the chain equals (mod 2) the parity with the polygon of its chords plus, for every
arc, the parity with the closed loop  arc + chord.  That loop is simple (a parabola arc and
its chord) and bounds the *cap*
        cap(P0,P1,P2) = { p : l1 > 0  and  l1^2 < 4 l0 l2 }
where (l0,l1,l2) are the barycentric coordinates of p in the control triangle: on the arc
l0=(1-t)^2, l1=2t(1-t), l2=t^2, so l1^2 = 4 l0 l2, and the chord is l1 = 0.  Hence
        p inside the chain  <=>  parity(chords, p)  xor  cap_1(p) xor ... xor cap_k(p)
with no assumption on how the caps lie.  Everything is a polynomial condition of degree <= 2
in p: a free query point stays inside QF_NRA of degree 2 with two variables.

Region node:  ("curved", pieces, positive)   pieces: list of 2- or 3-tuples of (x, y)
                                              positive: region is the inside (ccw) / the outside (cw)
"""
from __future__ import annotations

from fractions import Fraction as F

import z3


class Unsupported(Exception):
    pass


def exact(v):
    """the exact rational value of an int / Fraction / float / numpy scalar"""
    if isinstance(v, F):
        return v
    if isinstance(v, int):
        return F(v)
    try:
        return F(v)
    except TypeError:
        return F(float(v))


def pieces_of_jordan(j):
    out = []
    for seg in j.segments:
        cps = [(exact(p[0]), exact(p[1])) for p in seg.ctrlpoints]
        if len(cps) > 3:
            raise Unsupported("piece of degree %d" % (len(cps) - 1))
        if len(cps) == 3 and _cross(cps[0], cps[1], cps[2]) == 0:
            raise Unsupported("degenerate quadratic piece (collinear control points)")
        out.append(tuple(cps))
    return out


def _cross(a, b, c):
    return (b[0] - a[0]) * (c[1] - a[1]) - (b[1] - a[1]) * (c[0] - a[0])


def signed_area2(pieces):
    """twice the signed area enclosed by the chain (Green): shoelace of the chords plus, per arc, 2 * (2/3) * area(triangle)"""
    tot = F(0)
    n = len(pieces)
    for i, pc in enumerate(pieces):
        a, b = pc[0], pc[-1]
        tot += a[0] * b[1] - b[0] * a[1]
        if len(pc) == 3:
            tot += F(2, 3) * _cross(pc[0], pc[1], pc[2])
    return tot


def curved_node(pieces):
    return ("curved", [tuple(p) for p in pieces], bool(signed_area2(pieces) > 0))


def closed_chain(pieces):
    return all(pieces[i][-1] == pieces[(i + 1) % len(pieces)][0] for i in range(len(pieces)))


def region_of_shape(S):
    """region tree of a library shape read from its kind and the control points of its pieces; orientation from the oracle's own signed area"""
    from shapepy import ConnectedShape, DisjointShape, EmptyShape, SimpleShape, WholeShape

    if isinstance(S, EmptyShape):
        return ("empty",)
    if isinstance(S, WholeShape):
        return ("whole",)
    if isinstance(S, SimpleShape):
        return curved_node(pieces_of_jordan(S.jordans[0]))
    if isinstance(S, ConnectedShape):
        return ("and", [region_of_shape(s) for s in S.subshapes])
    if isinstance(S, DisjointShape):
        return ("or", [region_of_shape(s) for s in S.subshapes])
    raise TypeError(type(S))


def nodes_of(reg):
    k = reg[0]
    if k == "curved":
        return [reg]
    if k in ("and", "or"):
        return [n for r in reg[1] for n in nodes_of(r)]
    if k == "not":
        return nodes_of(reg[1])
    if k == "xor":
        return nodes_of(reg[1]) + nodes_of(reg[2])
    return []


def lams(pc, px, py):
    """barycentric coordinates of p in the control triangle (linear in p; concrete coefficients)"""
    P0, P1, P2 = pc
    D = _cross(P0, P1, P2)
    l1 = ((px - P0[0]) * (P2[1] - P0[1]) - (py - P0[1]) * (P2[0] - P0[0])) / D
    l2 = ((P1[0] - P0[0]) * (py - P0[1]) - (P1[1] - P0[1]) * (px - P0[0])) / D
    l0 = 1 - l1 - l2
    return l0, l1, l2


# ------------------------------------------------------------------ z3 terms (p symbolic: Sym variables)


def z_parity(px, py, vs):
    from oracles.region import zand, zor

    acc = z3.BoolVal(False)
    n = len(vs)
    for i in range(n):
        (ax, ay), (bx, by) = vs[i], vs[(i + 1) % n]
        if ay == by:
            continue
        cr = (bx - ax) * (py - ay) - (by - ay) * (px - ax)
        hit = zor(zand(ay <= py, py < by, cr > 0), zand(by <= py, py < ay, cr < 0))
        acc = z3.Xor(acc, hit)
    return acc


def z_cap(pc, px, py):
    from oracles.region import zand

    l0, l1, l2 = lams(pc, px, py)
    return zand(l1 > 0, l0 > 0, l2 > 0, l1 * l1 < 4 * l0 * l2)


def z_in_curved(reg, px, py):
    pieces, positive = reg[1], reg[2]
    acc = z_parity(px, py, [pc[0] for pc in pieces])
    for pc in pieces:
        if len(pc) == 3:
            acc = z3.Xor(acc, z_cap(pc, px, py))
    return acc if positive else z3.Not(acc)


def _lin_coeffs(pc):
    """coefficients (a, b, c) of l_i(x, y) = a x + b y + c"""
    out = []
    for i in range(3):
        c = lams(pc, F(0), F(0))[i]
        a = lams(pc, F(1), F(0))[i] - c
        b = lams(pc, F(0), F(1))[i] - c
        out.append((a, b, c))
    return out


def arc_band_consts(pc, eps, M):
    """(eta, kappas): every point within eps (Euclidean) of the arc and inside the box |x|,|y| <= M satisfies
    |g(p)| <= eta and l_i(p) >= -kappa_i, where g = l1^2 - 4 l0 l2 (mean-value bound with the 1-norm of the gradient)"""
    co = _lin_coeffs(pc)
    L = [abs(a) * (M + eps) + abs(b) * (M + eps) + abs(c) for a, b, c in co]
    gx = 2 * L[1] * abs(co[1][0]) + 4 * (L[0] * abs(co[2][0]) + L[2] * abs(co[0][0]))
    gy = 2 * L[1] * abs(co[1][1]) + 4 * (L[0] * abs(co[2][1]) + L[2] * abs(co[0][1]))
    eta = eps * (gx + gy)
    kap = [eps * (abs(a) + abs(b)) for a, b, c in co]
    return eta, kap


def z_near_arc(pc, px, py, eps, M):
    """over-approximation of 'p is within eps of the arc' (sound exclusion zone)"""
    from oracles.region import zand

    eta, kap = arc_band_consts(pc, eps, M)
    l0, l1, l2 = lams(pc, px, py)
    g = l1 * l1 - 4 * l0 * l2
    return zand(px <= M, -px <= M, py <= M, -py <= M, g <= eta, -g <= eta, l0 >= -kap[0], l1 >= -kap[1], l2 >= -kap[2])


def z_off_boundary(px, py, regs, eps, M):
    """p is surely at distance >= eps from every boundary piece of the regions"""
    from oracles.region import z_seg_off, zb

    cs = []
    for reg in regs:
        for node in nodes_of(reg):
            for pc in node[1]:
                if len(pc) == 2:
                    cs.append(z_seg_off(px, py, pc[0], pc[1], eps))
                else:
                    cs.append(z3.Not(z_near_arc(pc, px, py, eps, M)))
                    # the chord's line is not a boundary, but the strict cap formula and the half-open chord parity are only
                    # claimed off it (a null set: any discrepancy of regions has interior points off these lines)
                    cs.append(zb(lams(pc, px, py)[1] != 0))
    return z3.And(cs) if cs else z3.BoolVal(True)


def z_off_chords(px, py, regs):
    """p is on no chord line of an arc of the regions (see z_off_boundary)"""
    from oracles.region import zb

    cs = [zb(lams(pc, px, py)[1] != 0) for reg in regs for node in nodes_of(reg) for pc in node[1] if len(pc) == 3]
    return z3.And(cs) if cs else z3.BoolVal(True)


def x_off_chords(p, regs):
    return all(lams(pc, F(p[0]), F(p[1]))[1] != 0 for reg in regs for node in nodes_of(reg) for pc in node[1] if len(pc) == 3)


def extent(regs):
    m = F(1)
    for reg in regs:
        for node in nodes_of(reg):
            for pc in node[1]:
                for q in pc:
                    m = max(m, abs(q[0]), abs(q[1]))
    return m


# --------------------------------------------------------------------- exact


def x_parity(p, vs):
    px, py = p
    k = 0
    n = len(vs)
    for i in range(n):
        (ax, ay), (bx, by) = vs[i], vs[(i + 1) % n]
        cr = (bx - ax) * (py - ay) - (by - ay) * (px - ax)
        if (ay <= py < by and cr > 0) or (by <= py < ay and cr < 0):
            k += 1
    return k % 2 == 1


def x_cap(pc, p):
    l0, l1, l2 = lams(pc, F(p[0]), F(p[1]))
    return l1 > 0 and l0 > 0 and l2 > 0 and l1 * l1 < 4 * l0 * l2


def x_in_curved(reg, p):
    pieces, positive = reg[1], reg[2]
    acc = x_parity(p, [pc[0] for pc in pieces])
    for pc in pieces:
        if len(pc) == 3 and x_cap(pc, p):
            acc = not acc
    return acc if positive else (not acc)


def x_near_arc(pc, p, eps, M):
    eta, kap = arc_band_consts(pc, eps, M)
    px, py = F(p[0]), F(p[1])
    l0, l1, l2 = lams(pc, px, py)
    g = l1 * l1 - 4 * l0 * l2
    return abs(px) <= M and abs(py) <= M and abs(g) <= eta and l0 >= -kap[0] and l1 >= -kap[1] and l2 >= -kap[2]


def x_off_boundary(p, regs, eps, M):
    from oracles.region import x_dist2_seg

    for reg in regs:
        for node in nodes_of(reg):
            for pc in node[1]:
                if len(pc) == 2:
                    if x_dist2_seg((F(p[0]), F(p[1])), pc[0], pc[1]) < 2 * eps * eps:
                        return False
                elif x_near_arc(pc, p, eps, M) or lams(pc, F(p[0]), F(p[1]))[1] == 0:
                    return False
    return True
