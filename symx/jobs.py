"""Job runner: one *scenario* (a family of inputs + the real library calls + obligations) is
explored symbolically in a worker with the stubs installed; every path witness and every
counterexample is then replayed in a different worker on the plain library.

Scenario protocol (a class; instances are built from picklable kwargs in both kinds of worker):

    names        list of variable names: explored inputs first, then `nfree` free variables
                 (e.g. the query point) that the traced code never reads
    nfree        number of trailing free variables
    domain(xs)   iterable of (unforced) comparisons restricting the inputs
    run(xs)      executes the real library; returns an *outcome* (nested dict/list of
                 numbers, strings, bools).  Runs in both modes: xs are Sym in the symbolic
                 worker, Fractions in the replay worker.  Must force every truth value.
    oblige(tr, outcome)  symbolic worker only, after run() returned: list of
                 (name, z3 formula, meta) such that PC & formula must be unsat
    on_raise(excname, func, line) -> None | violation-name  : is a raising path a violation?
    confirm(name, env, outcome) -> (bool, text)   replay worker: does the violation show on
                 the plain library at the witness?
    signature(name, env, outcome) -> dict        used to match known findings
"""
from __future__ import annotations

import importlib
import os
import sys
import time
import traceback
from fractions import Fraction

TOLREL = Fraction(1, 10**9)
MAXDEN = 10**8  # witnesses with larger denominators are not replayed: Point2D caps denominators at 1e9


def build(spec):
    mod = importlib.import_module(spec["module"])
    cls = getattr(mod, spec["scenario"])
    return cls(**spec.get("params", {}))


# ----------------------------------------------------------------- digests


def digest(x):
    """JSON-able exact summary of an outcome (shadow values for Sym)"""
    from symx.core import Sym

    if isinstance(x, Sym):
        return ["q", str(x.c)]
    if isinstance(x, bool) or x is None or isinstance(x, str):
        return x
    if isinstance(x, int):
        return ["q", str(x)]
    if isinstance(x, Fraction):
        return ["q", str(x)]
    if isinstance(x, float):
        return ["f", repr(x)]
    if hasattr(x, "shadow"):
        return ["f", repr(float(x.shadow()))]
    if isinstance(x, dict):
        return {str(k): digest(v) for k, v in x.items() if not str(k).startswith("_")}
    if isinstance(x, (list, tuple)):
        return [digest(v) for v in x]
    tn = type(x).__module__
    if tn == "numpy":
        import numpy as np

        if isinstance(x, np.floating):
            return ["f", repr(float(x))]
        if isinstance(x, np.integer):
            return ["q", str(int(x))]
        if isinstance(x, np.bool_):
            return bool(x)
    return ["?", type(x).__name__]


def _num(d):
    if d[0] == "q":
        return Fraction(d[1]), True
    return Fraction(float(d[1])), False


def same_digest(a, b, tol=None):
    tol = TOLREL if tol is None else tol
    if isinstance(a, list) and len(a) == 2 and a[0] in ("q", "f") and isinstance(a[1], str):
        if not (isinstance(b, list) and len(b) == 2 and b[0] in ("q", "f")):
            return False
        va, ea = _num(a)
        vb, eb = _num(b)
        # exact values may differ by the library's denominator cap (Point2D re-rounds every
        # copied coordinate to a denominator <= 1e9), floats by rounding: compare to 1e-9
        return abs(va - vb) <= tol * max(1, abs(va), abs(vb))
    if isinstance(a, dict):
        return isinstance(b, dict) and a.keys() == b.keys() and all(same_digest(a[k], b[k], tol) for k in a)
    if isinstance(a, list):
        return isinstance(b, list) and len(a) == len(b) and all(same_digest(x, y, tol) for x, y in zip(a, b))
    return a == b


def exact_diffs(a, b, path=""):
    """places where the plain (b) value is not the exact rational the symbolic run (a) computed:
    returns [(path, symbolic, plain)]"""
    out = []
    if isinstance(a, list) and len(a) == 2 and a[0] in ("q", "f") and isinstance(a[1], str):
        if a[0] == "q" and isinstance(b, list) and (b[0] != "q" or Fraction(b[1]) != Fraction(a[1])):
            out.append((path, a, b))
        return out
    if isinstance(a, dict) and isinstance(b, dict):
        for k in a:
            if k in b:
                out += exact_diffs(a[k], b[k], path + "/" + k)
    elif isinstance(a, list) and isinstance(b, list):
        for i, (x, y) in enumerate(zip(a, b)):
            out += exact_diffs(x, y, path + f"/{i}")
    return out


def fr(s):
    return Fraction(s)


# --------------------------------------------------------------- symbolic job


def _where(tb):
    for f in reversed(tb or []):
        if "/shapepy/" in f.filename or "/pynurbs/" in f.filename:
            return f.name, f.lineno, os.path.basename(f.filename)
    if tb:
        f = tb[-1]
        return f.name, f.lineno, os.path.basename(f.filename)
    return "?", 0, "?"


def run_symbolic(spec):
    """worker entry: explore one scenario; returns a picklable result dict"""
    t_start = time.time()
    try:
        from symx import core, shims
        from symx.explore import explore, simplify_env

        scn = build(spec)
        if getattr(scn, "plain", False):  # no symbolic input: the library runs unstubbed
            if shims.installed():
                shims.uninstall()
        elif not shims.installed():
            shims.install()
        names = list(scn.names)
        nfree = getattr(scn, "nfree", 0)
        nexp = len(names) - nfree
        global MAXDEN
        MAXDEN = int(getattr(scn, "max_witness_den", 10**8))
        res = dict(spec=spec, ok=True, leaves=[], violations=[], obligations=0, discharged=0, undecided=0,
                   ob_queries={"sat": 0, "unsat": 0, "unknown": 0}, functions=[])
        import z3

        entered = set()

        def prof(frame, event, arg):
            if event == "call":
                fn = frame.f_code.co_filename
                if "/shapepy/" in fn:
                    entered.add(os.path.basename(fn)[:-3] + "." + frame.f_code.co_qualname)

        nrun = [0]

        def fn(xs):
            nrun[0] += 1
            if nrun[0] > 2:  # the functions entered are collected on the first two paths only (profiling is slow)
                return scn.run(list(xs))
            sys.setprofile(prof)
            try:
                return scn.run(list(xs))
            finally:
                sys.setprofile(None)

        def on_leaf(tr, leaf):
            rec = dict(env=[str(v) for v in leaf.env], kind=leaf.kind, ndec=leaf.ndec)
            if any(v.denominator > MAXDEN for v in leaf.env[:nexp]) and not getattr(scn, "replay_any_denominator", False):
                rec["unrepresentable"] = True  # no witness with denominators <= 1e9 found (Point2D caps denominators)
            if leaf.kind == "return":
                out = leaf.out
                rec["digest"] = digest(out)
                pc = tr.pc_z3()
                obs = []
                if tr.concretized and not getattr(scn, "allow_concretize", False):
                    rec["kind"] = "concretized"
                    res["leaves"].append(rec)
                    return
                try:
                    _t = time.time()
                    obs = scn.oblige(tr, out) or []
                    res["t_build"] = res.get("t_build", 0) + time.time() - _t
                except core.PathAbort as e:
                    rec["kind"] = "intractable"
                    rec["why"] = "oblige: " + str(e)[:200]
                    res["leaves"].append(rec)
                    return
                rec["obl"] = []
                for name, formula, meta in obs:
                    res["obligations"] += 1
                    _t = time.time()
                    r, m = tr.check_pc(formula, timeout_ms=getattr(scn, "ob_timeout_ms", 20000))
                    res["t_obsolve"] = res.get("t_obsolve", 0) + time.time() - _t
                    res["ob_queries"][r] = res["ob_queries"].get(r, 0) + 1
                    rec["obl"].append([name, r])
                    if r == "unsat":
                        res["discharged"] += 1
                    elif r == "unknown":
                        res["undecided"] += 1
                    else:
                        env = tr.model_env(m, len(names))
                        # explored variables: prefer small denominators that stay in the cell
                        extra = []
                        fz = getattr(scn, "witness_atoms", None)
                        env2 = _simplify_witness(tr, leaf, env, formula, nexp, m)
                        res["violations"].append(dict(name=name, env=[str(v) for v in env2], meta=meta, kind="obligation",
                                                      alts=[[str(v) for v in a] for a in _alt_witnesses(tr, formula, nexp, env2, len(names))],
                                                      cell=[str(v) for v in leaf.env], unrepresentable=any(v.denominator > MAXDEN for v in env2[:nexp])))
            elif leaf.kind == "raise":
                fnm, line, file = _where(leaf.tb)
                exc = type(leaf.exc).__name__
                rec["exc"] = exc
                rec["where"] = [file, fnm, line]
                rec["msg"] = str(leaf.exc)[:120]
                rec["digest"] = {"exc": exc}
                vname = scn.on_raise(exc, fnm, line) if hasattr(scn, "on_raise") else None
                if vname:
                    env = list(leaf.env)
                    keep = True
                    f = None
                    if hasattr(scn, "raise_formula"):
                        # the raise is a violation only where this (z3) condition holds inside the cell
                        f = scn.raise_formula(tr)
                        if f is not None:
                            res["obligations"] += 1
                            pc = tr.pc_z3()
                            r, m = tr.check_pc(f, timeout_ms=10000)
                            res["ob_queries"][r] = res["ob_queries"].get(r, 0) + 1
                            rec["obl"] = [[vname, r]]
                            if r == "unsat":
                                res["discharged"] += 1
                                keep = False
                                rec["excused"] = True
                            elif r == "unknown":
                                res["undecided"] += 1
                                keep = False
                            else:
                                from symx.explore import simplify_env as _se
                                env = tr.model_env(m, len(names))
                                env = _simplify_witness(tr, leaf, env, f, nexp, m)
                    if keep:
                        res["violations"].append(dict(name=vname, env=[str(v) for v in env], meta={"exc": exc, "where": [file, fnm, line]},
                                                      alts=[[str(v) for v in a] for a in _alt_witnesses(tr, f, nexp, [Fraction(v) for v in env], len(names))],
                                                      kind="raise", cell=[str(v) for v in leaf.env], unrepresentable=any(v.denominator > MAXDEN for v in env[:nexp])))
            elif leaf.kind == "budget" and hasattr(scn, "on_budget"):
                rec["why"] = str(leaf.exc)[:160]
                vname = scn.on_budget()
                if vname:
                    res["violations"].append(dict(name=vname, env=[str(v) for v in leaf.env], meta={"why": rec["why"]}, kind="hang",
                                                  cell=[str(v) for v in leaf.env], timeout=getattr(scn, "hang_timeout", 30),
                                                  unrepresentable=any(v.denominator > MAXDEN for v in leaf.env[:nexp])))
            else:
                rec["why"] = str(leaf.exc)[:160]
            res["leaves"].append(rec)

        on_leaf.keep_out = False
        dom = getattr(scn, "domain", None)
        stats, leaves = explore(
            names, fn, domain=dom, on_leaf=on_leaf,
            max_paths=spec.get("max_paths", 20000), time_budget=spec.get("time_budget"),
            raw=getattr(scn, "raw", False), timeout_ms=getattr(scn, "timeout_ms", 10000),
            seed_env=[Fraction(v) for v in scn.seed()] if hasattr(scn, "seed") else None,
            max_decisions=getattr(scn, "max_decisions", 20000), path_timeout=getattr(scn, "path_timeout", 120), max_degree=getattr(scn, "max_degree", 6),
        )
        # probe inputs: extra concrete inputs run once under the exact-real semantics (constant path, no
        # exploration); the replay on the plain library is compared with these values
        for penv in (scn.extra_envs() if hasattr(scn, "extra_envs") else []):
            penv = [Fraction(v) for v in penv]
            from symx.core import Sym as _Sym

            tr = core.TR
            tr.begin(penv)
            try:
                out = scn.run([_Sym.var(i, penv[i]) for i in range(len(penv))])
                res["leaves"].append(dict(env=[str(v) for v in penv], kind="return", ndec=len(tr.decisions), digest=digest(out), probe=True, obl=[]))
            except core.PathAbort as e:
                res["leaves"].append(dict(env=[str(v) for v in penv], kind="intractable", ndec=0, why="probe: " + str(e)[:100], probe=True))
            except Exception as e:  # noqa
                res["leaves"].append(dict(env=[str(v) for v in penv], kind="raise", ndec=0, digest={"exc": type(e).__name__}, exc=type(e).__name__, probe=True))
        res["stats"] = stats
        res["cvc5"] = {k: v for k, v in core.TR.cvc5_stats.items() if k != "samples"}
        res["cvc5_disagreements"] = core.TR.cvc5_stats["samples"][:2]
        res["functions"] = sorted(entered)
        res["names"] = names
        res["wall"] = round(time.time() - t_start, 3)
        return res
    except BaseException as e:  # harness error, reported as such
        return dict(spec=spec, ok=False, error="".join(traceback.format_exception(type(e), e, e.__traceback__))[-3000:],
                    wall=round(time.time() - t_start, 3))


def _simplify_witness(tr, leaf, env, formula, nexp, model):
    """try small-denominator values for all witness variables that still satisfy PC & formula
    (checked by z3 with the candidate values pinned); falls back to the model"""
    import z3

    from symx.core import rv_const

    cur = list(env)
    pc = tr.pc_z3()
    for i in range(len(cur)):
        v = cur[i]
        if v.denominator == 1:
            continue
        for md in (1, 2, 4, 8, 10, 100, 1000, 10**4, 10**6, 10**8):
            c = v.limit_denominator(md)
            if c == v:
                break
            pins = [tr.zvars[j] == rv_const(cur[j] if j != i else c) for j in range(len(cur))]
            r, _ = tr.check_fresh(*pc, formula, *pins, timeout_ms=2000)
            if r == "sat":
                cur[i] = c
                break
    return cur


def _alt_witnesses(tr, formula, nexp, env, nvars):
    """further witnesses of PC & formula whose explored values differ from `env` (a second model and the midpoint between
    the two when it still satisfies everything): the replay falls back to them when the first witness, often a corner of
    its cell, does not reproduce because the plain library rounds where the exact-real run does not"""
    import z3

    from symx.core import rv_const

    if nexp == 0:
        return []
    alts = []
    try:
        pc = tr.pc_z3()
        fs = [formula] if formula is not None else []
        diff = z3.Or([tr.zvars[i] != rv_const(env[i]) for i in range(nexp)])
        r, m = tr.check_fresh(*pc, *fs, diff, timeout_ms=3000)
        if r != "sat":
            return []
        e2 = tr.model_env(m, nvars)
        mid = [(env[i] + e2[i]) / 2 for i in range(nexp)]
        pins = [tr.zvars[i] == rv_const(mid[i]) for i in range(nexp)]
        r3, m3 = tr.check_fresh(*pc, *fs, *pins, timeout_ms=3000)
        if r3 == "sat":
            alts.append(tr.model_env(m3, nvars))
        alts.append(e2)
    except Exception:  # noqa
        pass
    return [a for a in alts if all(v.denominator <= MAXDEN for v in a[:nexp])]


# ----------------------------------------------------------------- replay job


def run_replay(task):
    """replay worker entry (plain library, no stubs): task = dict(spec, envs=[..], violations=[..])"""
    try:
        from symx import shims

        assert not shims.installed(), "replay worker must not have the stubs installed"
        spec = task["spec"]
        scn = build(spec)
        out = dict(spec=spec, ok=True, digests=[], confirms=[])
        for env in task.get("envs", []):
            xs = [Fraction(v) for v in env]
            out["digests"].append(_plain_run(scn, xs)[1])
        # cells the symbolic engine could not follow to the end (tolerance band, intractable,
        # budget): the property is spot-checked on the plain library at the cell's witness
        out["spots"] = []
        names_spot = getattr(scn, "spot_names", None)
        for env in task.get("spot_envs", []):
            xs = [Fraction(v) for v in env]
            if names_spot is None:
                out["spots"].append(None)
                continue
            outcome, dg, exc = _plain_run(scn, xs)
            hits = []
            for nm in names_spot:
                try:
                    if exc is not None and outcome is None:
                        rn = scn.on_raise(exc["exc"], exc["where"][1], exc["where"][2]) if hasattr(scn, "on_raise") else None
                        if rn:
                            okv, text = scn.confirm(rn, xs, outcome, exc)
                            if okv:
                                hits.append(dict(name=rn, text=text, sig=scn.signature(rn, xs, outcome, exc) if hasattr(scn, "signature") else {}))
                        break
                    okv, text = scn.confirm(nm, xs, outcome, exc)
                    if okv:
                        hits.append(dict(name=nm, text=text, sig=scn.signature(nm, xs, outcome, exc) if hasattr(scn, "signature") else {}))
                except Exception as e:  # noqa
                    pass
            out["spots"].append(hits)
        for v in task.get("violations", []):
            if v.get("unrepresentable"):
                out["confirms"].append(dict(reproduced=False, text="witness not representable with denominators <= 1e8: not replayed", sig={}, skipped=True))
                continue
            first = None
            for k, envs in enumerate([v["env"]] + list(v.get("alts") or [])):
                xs = [Fraction(s) for s in envs]
                outcome, dg, exc = _plain_run(scn, xs, timeout=v.get("timeout"))
                try:
                    okv, text = scn.confirm(v["name"], xs, outcome, exc)
                    sig = scn.signature(v["name"], xs, outcome, exc) if hasattr(scn, "signature") else {}
                except Exception as e:  # noqa
                    okv, text, sig = False, "confirm() raised " + repr(e), {}
                c = dict(reproduced=bool(okv), text=text, sig=sig)
                if k > 0:
                    c["env"] = list(envs)  # an alternative witness of the same counterexample cell reproduced
                if first is None:
                    first = c
                if okv:
                    first = c
                    break
            out["confirms"].append(first)
        return out
    except BaseException as e:
        return dict(spec=task.get("spec"), ok=False, error="".join(traceback.format_exception(type(e), e, e.__traceback__))[-3000:])


class ReplayTimeout(Exception):
    pass


def _plain_run(scn, xs, timeout=None):
    import signal

    def handler(signum, frame):
        raise ReplayTimeout("plain replay timed out")

    old = signal.signal(signal.SIGALRM, handler)
    signal.alarm(int(timeout or getattr(scn, "replay_timeout", 60)))
    try:
        outcome = scn.run(list(xs))
        return outcome, digest(outcome), None
    except Exception as e:
        tb = traceback.extract_tb(e.__traceback__)
        fnm, line, file = _where(tb)
        return None, {"exc": type(e).__name__}, dict(exc=type(e).__name__, where=[file, fnm, line], msg=str(e)[:200])
    finally:
        signal.alarm(0)
        signal.signal(signal.SIGALRM, old)
