"""SYMX core: exact symbolic numbers for path-exhaustive symbolic execution of
the real shapepy code.

A ``Sym`` is a rational function over Q in the input variables, kept in
canonical polynomial form (numerator / denominator), with a concrete shadow
value under the current witness.  Comparisons give ``SymBool``; asking a
``SymBool`` for its truth value records a polynomial sign atom in the active
``Tracer`` and follows the shadow.  The exploration driver (explore.py) asks
z3 whether the other outcome of each recorded atom is feasible.

Nothing here knows about shapepy.
"""
from __future__ import annotations

import math
import time
from fractions import Fraction

import z3

# ---------------------------------------------------------------- polynomials


class Poly:
    """Multivariate polynomial over Q; terms: {monomial: coeff}, a monomial is
    a sorted tuple of (var, exp)."""

    __slots__ = ("t", "_h")

    def __init__(self, terms=None):
        self.t = terms or {}
        self._h = None

    @staticmethod
    def const(c):
        c = Fraction(c)
        return Poly({(): c} if c else {})

    @staticmethod
    def var(i):
        return Poly({((i, 1),): Fraction(1)})

    def is_const(self):
        return not self.t or (len(self.t) == 1 and () in self.t)

    def cval(self):
        return self.t.get((), Fraction(0))

    def __add__(self, o):
        r = dict(self.t)
        for k, v in o.t.items():
            n = r.get(k, 0) + v
            if n:
                r[k] = n
            else:
                r.pop(k, None)
        return Poly(r)

    def __neg__(self):
        return Poly({k: -v for k, v in self.t.items()})

    def __sub__(self, o):
        r = dict(self.t)
        for k, v in o.t.items():
            n = r.get(k, 0) - v
            if n:
                r[k] = n
            else:
                r.pop(k, None)
        return Poly(r)

    def scale(self, c):
        if not c:
            return Poly()
        return Poly({k: v * c for k, v in self.t.items()})

    def __mul__(self, o):
        if len(self.t) > len(o.t):
            self, o = o, self
        r = {}
        for k1, v1 in self.t.items():
            for k2, v2 in o.t.items():
                if not k1:
                    k = k2
                elif not k2:
                    k = k1
                else:
                    d = dict(k1)
                    for i, e in k2:
                        d[i] = d.get(i, 0) + e
                    k = tuple(sorted(d.items()))
                n = r.get(k, 0) + v1 * v2
                if n:
                    r[k] = n
                else:
                    r.pop(k, None)
        return Poly(r)

    def __eq__(self, o):
        return isinstance(o, Poly) and self.t == o.t

    def __hash__(self):
        if self._h is None:
            self._h = hash(frozenset(self.t.items()))
        return self._h

    def degree(self):
        return max((sum(e for _, e in k) for k in self.t), default=0)

    def vars(self):
        s = set()
        for k in self.t:
            for i, _ in k:
                s.add(i)
        return s

    def evaluate(self, env):
        tot = Fraction(0)
        for k, v in self.t.items():
            m = v
            for i, e in k:
                m *= env[i] ** e
            tot += m
        return tot

    def subs_poly(self, mapping):
        """substitute variables by Polys (mapping: var -> Poly)."""
        out = Poly()
        for k, v in self.t.items():
            m = Poly.const(v)
            for i, e in k:
                b = mapping.get(i)
                if b is None:
                    b = Poly.var(i)
                for _ in range(e):
                    m = m * b
            out = out + m
        return out

    def z3(self, zvars):
        terms = []
        for k, v in self.t.items():
            fs = []
            for i, e in k:
                fs += [zvars[i]] * e
            c = z3.RatVal(v.numerator, v.denominator)
            if fs:
                m = fs[0]
                for f in fs[1:]:
                    m = m * f
                terms.append(m if v == 1 else c * m)
            else:
                terms.append(c)
        if not terms:
            return z3.RealVal(0)
        return z3.Sum(terms) if len(terms) > 1 else terms[0]

    def pretty(self, names=None):
        def nm(i):
            return names[i] if names and i < len(names) else f"x{i}"

        parts = []
        for k, v in sorted(self.t.items()):
            mono = "*".join(nm(i) + (f"^{e}" if e > 1 else "") for i, e in k)
            parts.append(f"{v}*{mono}" if mono and v != 1 else (mono or str(v)))
        return " + ".join(parts) or "0"

    __repr__ = pretty


def poly_div_exact(a: Poly, b: Poly):
    """q with a == q*b when b divides a exactly, else None."""
    if not b.t:
        return None
    if b.is_const():
        return a.scale(1 / b.cval())

    def key(k):
        return (sum(e for _, e in k), k)

    lb = max(b.t, key=key)
    cb = b.t[lb]
    q = Poly()
    r = a
    guard = 0
    while r.t:
        guard += 1
        if guard > 4000:
            return None
        lr = max(r.t, key=key)
        dlr = dict(lr)
        for i, e in lb:
            if dlr.get(i, 0) < e:
                return None
        for i, e in lb:
            dlr[i] -= e
        mk = tuple(sorted((i, e) for i, e in dlr.items() if e))
        mono = Poly({mk: r.t[lr] / cb})
        q = q + mono
        r = r - mono * b
    return q


# ------------------------------------------------------------- control flow


class PathAbort(BaseException):
    """Base of the engine's path-terminating signals (BaseException so that
    library ``except Exception`` / ``except ValueError`` blocks do not eat it)."""


class Band(PathAbort):
    """a tolerance comparison fell strictly inside its ambiguity band"""


class Intractable(PathAbort):
    """an atom / operation outside the modelled fragment"""


class Budget(PathAbort):
    """per-path step budget exceeded"""


OPS = {
    "<": lambda a: a < 0,
    "<=": lambda a: a <= 0,
    ">": lambda a: a > 0,
    ">=": lambda a: a >= 0,
    "==": lambda a: a == 0,
    "!=": lambda a: a != 0,
}
FLIP = {"<": ">", "<=": ">=", ">": "<", ">=": "<=", "==": "==", "!=": "!="}
NEG = {"<": ">=", "<=": ">", ">": "<=", ">=": "<", "==": "!=", "!=": "=="}
SATSET = {"<": {-1}, "<=": {-1, 0}, ">": {1}, ">=": {0, 1}, "==": {0}, "!=": {-1, 1}}


def sgn(x):
    return (x > 0) - (x < 0)


class Atom:
    """normalised polynomial sign condition  p op 0  (first sorted term has coefficient +1)"""

    __slots__ = ("p", "op", "key")

    def __init__(self, p: Poly, op: str):
        self.p = p
        self.op = op
        self.key = (p, op)

    def holds(self, env):
        return OPS[self.op](self.p.evaluate(env))

    def negated(self):
        return Atom(self.p, NEG[self.op])

    def z3(self, tr):
        zc = tr.zcache
        za = zc.get(self.key)
        if za is None:
            zp = zc.get(self.p)
            if zp is None:
                zp = self.p.z3(tr.zvars)
                zc[self.p] = zp
            za = OPS[self.op](zp)
            zc[self.key] = za
        return za

    def z3neg(self, tr):
        zc = tr.zcache
        k = (self.p, self.op, "not")
        za = zc.get(k)
        if za is None:
            za = z3.Not(self.z3(tr))
            zc[k] = za
        return za

    def pretty(self, names=None):
        return f"{self.p.pretty(names)} {self.op} 0"


def normalise(n: Poly, op: str):
    k0 = min(n.t)
    c0 = n.t[k0]
    p = n.scale(1 / c0) if c0 != 1 else n
    if c0 < 0:
        op = FLIP[op]
    return p, op


class Tracer:
    """records the decisions of one run; owns the z3 session of the job"""

    def __init__(self, names, domain_atoms=(), timeout_ms=10000, nl_timeout_ms=3000, max_decisions=20000):
        self.names = list(names)
        self.nvars = len(names)
        self.zvars = [z3.Real(n) for n in names]
        self.solver = z3.Solver()
        self.timeout_ms = timeout_ms
        self.nl_timeout_ms = nl_timeout_ms
        self.solver.set("timeout", timeout_ms)
        self.zcache = {}
        self.domain = list(domain_atoms)
        for a in self.domain:
            self.solver.add(a.z3(self))
        self.env = None
        self.decisions = []  # (Atom, taken: bool|None)
        self.signs = {}
        self.nqueries = 0
        self.q_by_answer = {"sat": 0, "unsat": 0, "unknown": 0}
        self.tsolve = 0.0
        self.nonlinear_atoms = 0
        self.concretized = 0
        self.max_decisions = max_decisions
        self.max_degree = 6
        self.cvc5_stats = {"queries": 0, "agree": 0, "disagree": 0, "unknown": 0, "errors": 0, "time": 0.0, "samples": []}
        self.taint_log = []
        self.notes = []

    # -- per-run state
    def begin(self, env):
        self.env = list(env)
        self.decisions = []
        self.signs = {}
        self.concretized = 0
        self.notes = []
        self.rawcache = {}  # raw-DAG node ids are per path

    def check(self, *extra, timeout_ms=None):
        t0 = time.time()
        self.solver.push()
        if timeout_ms:
            self.solver.set("timeout", timeout_ms)
        for e in extra:
            self.solver.add(e)
        r = self.solver.check()
        m = self.solver.model() if r == z3.sat else None
        self.solver.pop()
        if timeout_ms:
            self.solver.set("timeout", self.timeout_ms)
        self.nqueries += 1
        self.tsolve += time.time() - t0
        r = str(r)
        self.q_by_answer[r] = self.q_by_answer.get(r, 0) + 1
        return r, m

    # -- deciding atoms
    def lagrange(self, p: Poly):
        """quadratic p -> ([(c_i, L_i)], e) with p = sum c_i L_i^2 + e, else None"""
        terms = []
        r = p
        for _ in range(8):
            if r.degree() < 2:
                break
            sqv = sorted(k for k in r.t if len(k) == 1 and k[0][1] == 2)
            if not sqv:
                return None
            x = sqv[0][0][0]
            c = r.t[sqv[0]]
            M = Poly()
            for k, v in r.t.items():
                d = dict(k)
                if d.get(x, 0) == 1:
                    d.pop(x)
                    M = M + Poly({tuple(sorted(d.items())): v / (2 * c)})
            L = Poly.var(x) + M
            r = r - (L * L).scale(c)
            if any(dict(k).get(x, 0) for k in r.t):
                return None
            terms.append((c, L))
        if r.degree() != 0 and r.t:
            return None
        return terms, r.cval()

    def decide_quadratic(self, p, op):
        """decide  p op 0  for a definite quadratic through linear atoms only;
        None when the form does not apply; raises Band inside the ambiguity band"""
        lg = self.lagrange(p)
        if lg is None:
            return None
        terms, e = lg
        if not terms:
            return None
        if not all(c > 0 for c, _ in terms) and not all(c < 0 for c, _ in terms):
            return None
        if terms[0][0] < 0:
            terms = [(-c, L) for c, L in terms]
            e = -e
            op = FLIP[op]

        def sym(L):
            return Sym(L, None, L.evaluate(self.env))

        if e > 0:
            sign = 1
        elif e == 0:
            allz = True
            for c, L in terms:
                if bool(sym(L) != 0):
                    allz = False
            sign = 0 if allz else 1
        else:
            thr = -e
            k = len(terms)
            big = False
            for c, L in terms:
                r = thr / c
                rhi = _sqrt_hi(r)
                if bool(abs(sym(L)) >= rhi):
                    big = True
                    break
            if big:
                sign = 1
            else:
                small = True
                for c, L in terms:
                    r = thr / (c * k)
                    rlo = _sqrt_lo(r)
                    if not bool(abs(sym(L)) < rlo):
                        small = False
                        break
                if small:
                    sign = -1
                else:
                    raise Band("quadratic atom inside its tolerance band")
        return sign in SATSET[op]

    def decide(self, n: Poly, op: str, conc: bool):
        if len(self.decisions) > self.max_decisions:
            raise Budget("too many decisions on one path")
        deg = n.degree()
        if deg == 2:
            r = self.decide_quadratic(n, op)
            if r is not None:
                return r
        p, op = normalise(n, op)
        poss = self.signs.get(p)
        if poss is None:
            poss = {-1, 0, 1}
        sat = SATSET[op]
        if poss <= sat:
            return True
        if not (poss & sat):
            return False
        if deg > 1:
            self.nonlinear_atoms += 1
            if deg > self.max_degree or len(p.vars()) > 4 and deg > 2:
                raise Intractable(f"atom of degree {deg} in {len(p.vars())} variables")
        self.decisions.append((Atom(p, op), bool(conc)))
        self.signs[p] = (poss & sat) if conc else (poss - sat)
        return bool(conc)

    def assume(self, symbool):
        """force a fact (no alternative explored); raises Intractable if it
        is false under the shadow"""
        d = symbool.diff
        assert d.d is None
        if d.n.is_const():
            assert OPS[symbool.op](d.n.cval())
            return
        p, op = normalise(d.n, symbool.op)
        if not OPS[op](p.evaluate(self.env)):
            raise Intractable("assumption false under witness")
        self.decisions.append((Atom(p, op), None))
        poss = self.signs.get(p, {-1, 0, 1})
        self.signs[p] = poss & SATSET[op]

    def pc_z3(self, decisions=None):
        out = []
        for a, tk in self.decisions if decisions is None else decisions:
            out.append(a.z3(self) if tk in (True, None) else a.z3neg(self))
        return out

    def pc_z3_linear(self):
        """the linear atoms of the path condition only (a weakening of the path condition)"""
        out = []
        for a, tk in self.decisions:
            if a.p.degree() <= 1:
                out.append(a.z3(self) if tk in (True, None) else a.z3neg(self))
        return out

    def has_nonlinear_pc(self):
        return any(a.p.degree() > 1 for a, _ in self.decisions)

    def check_fresh(self, *assertions, timeout_ms=20000):
        """one-shot query on a fresh solver (keeps the exploration solver free of the
        obligation's extra variables and non-linear atoms)"""
        t0 = time.time()
        s = z3.Solver()
        s.set("timeout", timeout_ms)
        for a in self.domain:
            s.add(a.z3(self))
        for e in assertions:
            s.add(e)
        r = s.check()
        m = s.model() if r == z3.sat else None
        self.nqueries += 1
        self.tsolve += time.time() - t0
        r = str(r)
        self.q_by_answer[r] = self.q_by_answer.get(r, 0) + 1
        if CVC5_RECHECK and r in ("sat", "unsat"):
            self.cvc5_recheck(s, r)
        return r, m

    def cvc5_recheck(self, solver, z3_answer, timeout_ms=5000):
        """second opinion (thorough tier): the same assertions re-decided by cvc5 1.4 from the SMT-LIB2 dump"""
        t0 = time.time()
        try:
            import cvc5

            slv = cvc5.Solver()
            slv.setOption("tlimit-per", str(timeout_ms))
            p = cvc5.InputParser(slv)
            p.setStringInput(cvc5.InputLanguage.SMT_LIB_2_6, "(set-logic ALL)\n" + solver.to_smt2(), "q")
            sm = p.getSymbolManager()
            ans = None
            while True:
                cmd = p.nextCommand()
                if cmd.isNull():
                    break
                out = cmd.invoke(slv, sm)
                if "sat" in str(out) and "(" not in str(out):
                    ans = str(out).strip()
            st = self.cvc5_stats
            st["queries"] += 1
            st["time"] += time.time() - t0
            if ans in ("sat", "unsat"):
                if ans == z3_answer:
                    st["agree"] += 1
                else:
                    st["disagree"] += 1
                    st["samples"].append(solver.to_smt2()[:2000])
            else:
                st["unknown"] += 1
        except Exception as e:  # noqa
            self.cvc5_stats["errors"] += 1
            self.cvc5_stats["last_error"] = repr(e)[:200]

    def check_pc(self, formula, timeout_ms=20000):
        """decide PC & formula; tries the linear weakening of PC first (unsat there => unsat)"""
        if self.has_nonlinear_pc():
            r, m = self.check_fresh(*self.pc_z3_linear(), formula, timeout_ms=timeout_ms)
            if r == "unsat":
                return r, m
        return self.check_fresh(*self.pc_z3(), formula, timeout_ms=timeout_ms)

    def model_env(self, m, n=None):
        env = []
        for v in self.zvars[: (n or self.nvars)]:
            env.append(model_value(m, v))
        return env


def model_value(m, v):
    val = m.eval(v, model_completion=True)
    if z3.is_algebraic_value(val):
        val = val.approx(30)
    return Fraction(val.numerator_as_long(), val.denominator_as_long())


def _sqrt_hi(r: Fraction) -> Fraction:
    """rational upper bound of sqrt(r)"""
    s = Fraction(math.isqrt(r.numerator * 10**40 // r.denominator) + 1, 10**20)
    assert s * s >= r
    return s


def _sqrt_lo(r: Fraction) -> Fraction:
    s = Fraction(math.isqrt(r.numerator * 10**40 // r.denominator), 10**20)
    assert s * s <= r
    return s


import os as _os

CVC5_RECHECK = _os.environ.get("SYMX_CVC5") == "1"

TR: Tracer = None


def set_tracer(tr):
    global TR
    TR = tr


# --------------------------------------------------------------------- raw DAG
# Optional hash-consed expression DAG of the operations actually executed;
# used for identity obligations so that z3 (not the normaliser above) decides
# that the code's term equals the oracle's.

RAW_ON = False
_raw_tab = {}
_raw_nodes = []


def raw_enable(flag=True):
    global RAW_ON
    RAW_ON = flag
    _raw_tab.clear()
    del _raw_nodes[:]


def raw_node(*key):
    i = _raw_tab.get(key)
    if i is None:
        i = len(_raw_nodes)
        _raw_nodes.append(key)
        _raw_tab[key] = i
    return i


def raw_of(x):
    if isinstance(x, Sym):
        if x.raw is None:
            if x.d is None and x.n.is_const():
                x.raw = raw_node("c", x.n.cval())
            else:
                # engine-made value (e.g. a linear form of the Lagrange reduction): canonical polynomial
                x.raw = raw_node("p", x.n, x.d)
        return x.raw
    return raw_node("c", Fraction(x))


def raw_z3(i, zvars, cache=None):
    cache = {} if cache is None else cache
    stack = [i]
    while stack:
        j = stack[-1]
        if j in cache:
            stack.pop()
            continue
        nd = _raw_nodes[j]
        if nd[0] == "c":
            cache[j] = z3.RatVal(nd[1].numerator, nd[1].denominator)
            stack.pop()
        elif nd[0] == "v":
            cache[j] = zvars[nd[1]]
            stack.pop()
        elif nd[0] == "p":
            cache[j] = nd[1].z3(zvars) if nd[2] is None else nd[1].z3(zvars) / nd[2].z3(zvars)
            stack.pop()
        else:
            a, b = nd[1], nd[2]
            if a in cache and b in cache:
                if nd[0] == "+":
                    cache[j] = cache[a] + cache[b]
                elif nd[0] == "*":
                    cache[j] = cache[a] * cache[b]
                elif nd[0] == "/":
                    cache[j] = cache[a] / cache[b]
                elif nd[0] == "-":
                    cache[j] = cache[a] - cache[b]
                stack.pop()
            else:
                if a not in cache:
                    stack.append(a)
                if b not in cache:
                    stack.append(b)
    return cache[i]


def raw_size(i):
    seen = set()
    stack = [i]
    while stack:
        j = stack.pop()
        if j in seen:
            continue
        seen.add(j)
        nd = _raw_nodes[j]
        if nd[0] not in "cvp":
            stack += [nd[1], nd[2]]
    return len(seen)


# ---------------------------------------------------------------------- Sym


def lift(x):
    if isinstance(x, Sym):
        return x
    if isinstance(x, bool):
        x = int(x)
    if isinstance(x, (int, Fraction)):
        return Sym(Poly.const(x), None, Fraction(x))
    if isinstance(x, float):
        if x != x or x in (math.inf, -math.inf):
            return None
        return Sym(Poly.const(Fraction(x)), None, Fraction(x), fl=True)
    tn = type(x).__module__
    if tn == "numpy":
        import numpy as np

        if isinstance(x, np.integer):
            return lift(int(x))
        if isinstance(x, np.floating):
            return lift(float(x))
    return None


class Sym:
    """exact symbolic real: n/d with shadow value c; fl = a Python float entered the value"""

    __slots__ = ("n", "d", "c", "sq", "fl", "raw")

    def __init__(self, n: Poly, d, c: Fraction, sq=None, fl=False, raw=None):
        self.n = n
        self.d = d  # None => 1
        self.c = c
        self.sq = sq
        self.fl = fl
        self.raw = raw

    @staticmethod
    def var(i, value):
        return Sym(Poly.var(i), None, Fraction(value), raw=raw_node("v", i) if RAW_ON else None)

    @staticmethod
    def make(n, d, c, fl=False, raw=None):
        if d is not None:
            if d.is_const():
                n = n.scale(1 / d.cval())
                d = None
            else:
                q = poly_div_exact(n, d)
                if q is not None:
                    n, d = q, None
        return Sym(n, d, c, None, fl, raw)

    def is_concrete(self):
        return self.d is None and self.n.is_const()

    def _bin(self, o, op):
        r = self._bin0(o, op)
        if r is not NotImplemented and not RAW_ON and r.d is None and not r.fl and r.n.is_const():
            return r.n.cval()
        return r

    def _bin0(self, o, op):
        o = lift(o)
        if o is None:
            return NotImplemented
        a, b = self, o
        fl = a.fl or b.fl
        raw = raw_node(op, raw_of(a), raw_of(b)) if RAW_ON else None
        if op == "+":
            if a.d is None and b.d is None:
                sq = a.sq + b.sq if (a.sq is not None and b.sq is not None) else None
                return Sym(a.n + b.n, None, a.c + b.c, sq, fl, raw)
            ad = a.d or Poly.const(1)
            bd = b.d or Poly.const(1)
            if a.d == b.d:
                return Sym.make(a.n + b.n, a.d, a.c + b.c, fl, raw)
            return Sym.make(a.n * bd + b.n * ad, ad * bd, a.c + b.c, fl, raw)
        if op == "-":
            if a.d is None and b.d is None:
                return Sym(a.n - b.n, None, a.c - b.c, None, fl, raw)
            ad = a.d or Poly.const(1)
            bd = b.d or Poly.const(1)
            if a.d == b.d:
                return Sym.make(a.n - b.n, a.d, a.c - b.c, fl, raw)
            return Sym.make(a.n * bd - b.n * ad, ad * bd, a.c - b.c, fl, raw)
        if op == "*":
            if a.d is None and b.d is None:
                sq = [a] if (a is b or (a.n == b.n)) else None
                return Sym(a.n * b.n, None, a.c * b.c, sq, fl, raw)
            ad = a.d or Poly.const(1)
            bd = b.d or Poly.const(1)
            return Sym.make(a.n * b.n, ad * bd, a.c * b.c, fl, raw)
        if op == "/":
            # b != 0 established by the caller
            ad = a.d or Poly.const(1)
            bd = b.d or Poly.const(1)
            return Sym.make(a.n * bd, ad * b.n, a.c / b.c, fl, raw)
        raise AssertionError

    def __add__(self, o):
        return self._bin(o, "+")

    __radd__ = __add__

    def __neg__(self):
        raw = raw_node("-", raw_node("c", Fraction(0)), raw_of(self)) if RAW_ON else None
        return Sym(-self.n, self.d, -self.c, None, self.fl, raw)

    def __pos__(self):
        return self

    def __sub__(self, o):
        return self._bin(o, "-")

    def __rsub__(self, o):
        o = lift(o)
        if o is None:
            return NotImplemented
        return o._bin(self, "-")

    def __mul__(self, o):
        return self._bin(o, "*")

    __rmul__ = __mul__

    def _nonzero_or_raise(self):
        if self.is_concrete():
            if self.n.cval() == 0:
                raise ZeroDivisionError("division by zero")
        elif bool(self == 0):
            raise ZeroDivisionError("symbolic division by zero")

    def __truediv__(self, o):
        o = lift(o)
        if o is None:
            return NotImplemented
        o._nonzero_or_raise()
        return self._bin(o, "/")

    def __rtruediv__(self, o):
        o = lift(o)
        if o is None:
            return NotImplemented
        self._nonzero_or_raise()
        return o._bin(self, "/")

    def __pow__(self, e):
        if isinstance(e, Sym) and e.is_concrete():
            e = e.c
        if isinstance(e, Fraction) and e.denominator == 1:
            e = int(e)
        if isinstance(e, float) and e == int(e):
            e = int(e)
        if not isinstance(e, int) or isinstance(e, bool):
            raise Intractable("symbolic pow with non-integer exponent")
        if e < 0:
            return 1 / (self ** (-e))
        r = lift(1)
        for _ in range(e):
            r = r * self
        return r

    def __abs__(self):
        return -self if (self < 0) else self

    def _cmp(self, o, op):
        o2 = lift(o)
        if o2 is None:
            return NotImplemented
        return SymBool(self._bin0(o2, "-"), op)

    def __lt__(self, o):
        return self._cmp(o, "<")

    def __le__(self, o):
        return self._cmp(o, "<=")

    def __gt__(self, o):
        return self._cmp(o, ">")

    def __ge__(self, o):
        return self._cmp(o, ">=")

    def __eq__(self, o):
        return self._cmp(o, "==")

    def __ne__(self, o):
        return self._cmp(o, "!=")

    def __hash__(self):
        return 0

    def __bool__(self):
        return bool(self != 0)

    def __float__(self):
        # concretisation point (reached only from C code / unshimmed modules); allowed where
        # the caller discards the result (argument validation `float(x)` as a statement)
        if not self.is_concrete() and TR is not None and not _discarded_float_call():
            TR.concretized += 1
        return float(self.c)

    def __round__(self, nd=None):
        raise Intractable("round() of a symbolic value")

    def __int__(self):
        if not self.is_concrete() and TR is not None:
            TR.concretized += 1
        return int(self.c)

    def __repr__(self):
        return f"Sym({self.c})"

    def pretty(self):
        nm = TR.names if TR else None
        s = self.n.pretty(nm)
        return s if self.d is None else f"({s})/({self.d.pretty(nm)})"


_DISCARD_RE = None
_discard_cache = {}


def _discarded_float_call():
    import linecache
    import re
    import sys

    global _DISCARD_RE
    if _DISCARD_RE is None:
        _DISCARD_RE = re.compile(r"^float\([\w\.\[\]]+\)\s*(#.*)?$")
    f = sys._getframe(2)
    key = (f.f_code.co_filename, f.f_lineno)
    r = _discard_cache.get(key)
    if r is None:
        line = linecache.getline(*key).strip()
        r = bool(_DISCARD_RE.match(line))
        _discard_cache[key] = r
    return r


def demote(x):
    """constant exact Sym -> Fraction"""
    if isinstance(x, Sym) and x.is_concrete() and not x.fl:
        return x.n.cval()
    return x


def val(x):
    """concrete (shadow) value of a number, exact"""
    if isinstance(x, Sym):
        return x.c
    if isinstance(x, (int, Fraction)):
        return Fraction(x)
    if isinstance(x, float):
        return Fraction(x)
    if hasattr(x, "shadow"):
        return x.shadow()
    return Fraction(x)


class SymBool:
    __slots__ = ("diff", "op")

    def __init__(self, diff: Sym, op):
        self.diff = diff
        self.op = op

    def __bool__(self):
        d = self.diff
        conc = OPS[self.op](d.c)
        if d.is_concrete():
            return conc
        n = d.n
        if d.d is not None:
            dpos = bool(SymBool(Sym(d.d, None, d.d.evaluate(TR.env)), ">"))
            if not dpos:
                n = -n
        return TR.decide(n, self.op, conc)

    def __repr__(self):
        return f"SymBool({self.diff.pretty()} {self.op} 0)"

    def __add__(self, o):
        return bool(self) + o

    __radd__ = __add__

    def __mul__(self, o):
        return bool(self) * o

    __rmul__ = __mul__

    def __and__(self, o):
        return bool(self) & bool(o)

    __rand__ = __and__

    def __or__(self, o):
        return bool(self) | bool(o)

    __ror__ = __or__

    def __invert__(self):
        return not bool(self)

    def __eq__(self, o):
        return bool(self) == o

    def __ne__(self, o):
        return bool(self) != o

    def __hash__(self):
        return hash(bool(self))

    def z3(self, tr=None):
        """z3 form without deciding (numerator/denominator handled by cross-multiplying is
        not needed: only used for polynomial diffs)"""
        tr = tr or TR
        assert self.diff.d is None
        return OPS[self.op](self.diff.n.z3(tr.zvars))


def zterm(x, tr=None):
    """z3 real term of a number (Sym with polynomial value, or constant)"""
    tr = tr or TR
    if isinstance(x, Sym):
        if x.d is None:
            return x.n.z3(tr.zvars)
        return x.n.z3(tr.zvars) / x.d.z3(tr.zvars)
    f = Fraction(x)
    return z3.RatVal(f.numerator, f.denominator)


def rv_const(f):
    f = Fraction(f)
    return z3.RatVal(f.numerator, f.denominator)
