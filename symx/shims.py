"""Stubs injected by name into the shapepy module namespaces (no source change).

Each stub is the identity on ordinary numbers wherever the exact-real
semantics allows and is part of every claim made with SYMX (DESIGN.md 2.1).
"""
from __future__ import annotations

import sys

import builtins
import math
from fractions import Fraction

import numpy as _np

from . import core
from .core import Band, Intractable, Poly, Sym, SymBool, lift, val

# ------------------------------------------------------------------ float/int


def symfloat(x=0.0):
    """`float` of exact-real semantics: identity on Sym, Fraction, int"""
    if isinstance(x, (Sym, Fraction, SymSqrt)) or (isinstance(x, int) and not isinstance(x, bool)):
        return x
    if isinstance(x, Turn):
        return x
    t = type(x)
    if hasattr(t, "__float__") and not isinstance(x, (int, float, Fraction, str, _np.generic)):
        return t.__float__(x)
    return builtins.float(x)


class _FloatMeta(type):
    def __instancecheck__(cls, obj):
        return builtins.isinstance(obj, builtins.float)

    def __call__(cls, x=0.0):
        return symfloat(x)


class symfloat_t(metaclass=_FloatMeta):
    pass


class _IntMeta(type):
    def __instancecheck__(cls, obj):
        return builtins.isinstance(obj, builtins.int)

    def __call__(cls, x=0, *a):
        if isinstance(x, (Sym, SymSqrt)):
            return IntOf(x)
        return builtins.int(x, *a)


class symint(metaclass=_IntMeta):
    pass


class IntOf:
    """int(sym): only used as  ``int(s) if int(s) == s else s`` (value-preserving)"""

    def __init__(self, s):
        self.s = s

    def __eq__(self, o):
        if o is not self.s:
            raise Intractable("int() of a symbolic value used other than in the int-if-integral idiom")
        return False  # keep the un-truncated symbolic value

    def __hash__(self):
        return 0


def symround(x, nd=None):
    if isinstance(x, Turn):
        return x.round()
    if isinstance(x, TurnRaw):
        return x.as_turn().round()
    if isinstance(x, Sym):
        raise Intractable("round() of a symbolic value")
    return builtins.round(x) if nd is None else builtins.round(x, nd)


# ----------------------------------------------------------------------- sqrt


def _polykey(x):
    if isinstance(x, Sym):
        return (x.n, x.d)
    return (Poly.const(x), None)


class SymSqrt:
    """rat + sum_i coef_i * sqrt(rad_i): exact algebraic value with lazy comparison.
    coef_i, rad_i, rat are Sym/Fraction; rad_i >= 0."""

    def __init__(self, terms, rat=0):
        self.terms = terms  # list of (coef, rad)
        self.rat = rat

    @staticmethod
    def of(a):
        return SymSqrt([(Fraction(1), a)], Fraction(0))

    def shadow(self):
        tot = float(val(self.rat))
        for c, a in self.terms:
            tot += float(val(c)) * math.sqrt(max(0.0, float(val(a))))
        return Fraction(tot)

    def _merge(self, terms, rat):
        out = []
        for c, a in terms:
            k = _polykey(a)
            for i, (c2, a2) in enumerate(out):
                if _polykey(a2) == k:
                    out[i] = (c2 + c, a2)
                    break
            else:
                out.append((c, a))
        out = [(c, a) for c, a in out if not (not isinstance(c, Sym) and c == 0)]
        out = [(c, a) for c, a in out if not (isinstance(c, Sym) and c.is_concrete() and c.c == 0)]
        if not out:
            return rat
        return SymSqrt(out, rat)

    def __add__(self, o):
        if isinstance(o, SymSqrt):
            return self._merge(self.terms + o.terms, self.rat + o.rat)
        if lift(o) is None:
            return NotImplemented
        return SymSqrt(list(self.terms), self.rat + o)

    __radd__ = __add__

    def __neg__(self):
        return SymSqrt([(-c, a) for c, a in self.terms], -self.rat)

    def __sub__(self, o):
        return self + (-o)

    def __rsub__(self, o):
        return (-self) + o

    def __mul__(self, o):
        if isinstance(o, SymSqrt):
            raise Intractable("product of square roots")
        if lift(o) is None:
            return NotImplemented
        return self._merge([(c * o, a) for c, a in self.terms], self.rat * o)

    __rmul__ = __mul__

    def __truediv__(self, o):
        if isinstance(o, SymSqrt):
            raise Intractable("quotient of square roots")
        return self._merge([(c / o, a) for c, a in self.terms], self.rat / o)

    def __abs__(self):
        return -self if self < 0 else self

    def __float__(self):
        return float(self.shadow())

    # sign of the algebraic number
    def sign(self):
        terms = self.terms
        rat = self.rat
        sr = 1 if rat > 0 else (-1 if rat < 0 else 0)
        signs = []
        for c, a in terms:
            s = 0
            if a > 0:
                s = 1 if c > 0 else (-1 if c < 0 else 0)
            signs.append(s)
        nz = [s for s in signs + [sr] if s]
        if not nz:
            return 0
        if all(s > 0 for s in nz):
            return 1
        if all(s < 0 for s in nz):
            return -1
        live = [(c, a) for (c, a), s in zip(terms, signs) if s]
        if len(live) == 1 and sr != 0:
            c, a = live[0]
            sc = signs[terms.index((c, a))]
            # opposite signs: compare c^2 a with r^2
            rhs = rat * rat
            if isinstance(a, Sym) and a.sq is not None and not isinstance(c, Sym) and not isinstance(rat, Sym):
                return sc * _sumsq_vs(a, rhs / (c * c))
            lhs = c * c * a
            if lhs > rhs:
                return sc
            if lhs < rhs:
                return sr
            return 0
        raise Intractable("mixed-sign sum of square roots")

    def _cmp(self, o, op):
        d = self - o
        if not isinstance(d, SymSqrt):
            return bool(getattr(d, {"<": "__lt__", "<=": "__le__", ">": "__gt__", ">=": "__ge__", "==": "__eq__", "!=": "__ne__"}[op])(0))
        s = d.sign()
        return s in core.SATSET[op]

    def __lt__(self, o):
        return self._cmp(o, "<")

    def __le__(self, o):
        return self._cmp(o, "<=")

    def __gt__(self, o):
        return self._cmp(o, ">")

    def __ge__(self, o):
        return self._cmp(o, ">=")

    def __eq__(self, o):
        if o is self:
            return True
        return self._cmp(o, "==")

    def __ne__(self, o):
        return not self.__eq__(o)

    def __hash__(self):
        return 0

    def __repr__(self):
        return f"SymSqrt({float(self.shadow())})"


def _sumsq_vs(a, thr):
    """sign of (a - thr) where a = sum x_i^2 (a.sq) and thr > 0 is a constant, decided with
    linear atoms only: surely above if some |x_i| >= sqrt(thr), surely below if every
    |x_i| < sqrt(thr/k); otherwise the run is inside the tolerance band"""
    xs = a.sq
    k = len(xs)
    hi = core._sqrt_hi(Fraction(thr))
    for x in xs:
        if abs(x) >= hi:
            return 1
    lo = core._sqrt_lo(Fraction(thr) / k)
    for x in xs:
        if not (abs(x) < lo):
            raise Band("distance inside the tolerance band")
    return -1


def symsqrt(x):
    if isinstance(x, Sym):
        if x.is_concrete():
            return math.sqrt(x.c)
        return SymSqrt.of(x)
    if isinstance(x, SymSqrt):
        raise Intractable("nested square root")
    return math.sqrt(x)


def symisclose(a, b, *, rel_tol=1e-09, abs_tol=0.0):
    """math.isclose over the reals: |a-b| <= max(rel_tol*max(|a|,|b|), abs_tol) (the tolerances, float literals, read exactly)"""
    if not isinstance(a, Sym) and not isinstance(b, Sym):
        return math.isclose(a, b, rel_tol=rel_tol, abs_tol=abs_tol)
    d = abs(a - b)
    if bool(d <= Fraction(abs_tol)):
        return True
    m = abs(a) if bool(abs(a) >= abs(b)) else abs(b)
    return bool(d <= Fraction(rel_tol) * m)


class MathShim:
    def __getattr__(self, k):
        return getattr(math, k)

    sqrt = staticmethod(symsqrt)
    isclose = staticmethod(symisclose)


# -------------------------------------------------------------------- arctan2


class Angle:
    """atan2(y, x) over the reals; only differences are ever used"""

    def __init__(self, y, x):
        self.y, self.x = y, x

    def __sub__(self, o):
        return AngleDiff(o, self)  # theta_self - theta_o


class AngleDiff:
    def __init__(self, a, b):
        self.a, self.b = a, b

    def __truediv__(self, k):
        if k != math.tau:
            raise Intractable("angle difference divided by something other than tau")
        return TurnRaw(self.a, self.b)


def _upper(A):
    """theta in (0, pi]  <=>  y > 0 or (y == 0 and x < 0)"""
    if A.y > 0:
        return True
    if A.y < 0:
        return False
    return bool(A.x < 0)


class TurnRaw:
    """(theta_b - theta_a)/tau in (-1, 1): the value the library computes before wrapping.  Its
    comparisons with 0 and 0.5 are decided by polynomial sign forks on the end points."""

    def __init__(self, a, b):
        self.a, self.b = a, b
        self.k = None
        self.sg = None

    def wrapclass(self):
        """+1 if raw >= 1/2, -1 if raw <= -1/2, else 0"""
        if self.k is None:
            a, b = self.a, self.b
            ua, ub = _upper(a), _upper(b)
            k = 0
            if (not ua) and ub:
                # raw in (0, 2pi): raw >= pi  iff  cross(a, b) <= 0
                if a.x * b.y - a.y * b.x <= 0:
                    k = 1
            elif ua and (not ub):
                # raw in (-2pi, 0): raw <= -pi  iff  cross(a, b) >= 0
                if a.x * b.y - a.y * b.x >= 0:
                    k = -1
            self.k = k
        return self.k

    def sign(self):
        """sign of raw"""
        if self.sg is None:
            k = self.wrapclass()
            if k:
                self.sg = k
            else:
                a, b = self.a, self.b
                ua, ub = _upper(a), _upper(b)
                if ua != ub:
                    self.sg = 1 if ub else -1  # lower -> upper half: raw in (0, pi)
                else:
                    c = a.x * b.y - a.y * b.x
                    self.sg = 1 if c > 0 else (-1 if c < 0 else 0)
        return self.sg

    def __abs__(self):
        return _AbsTurn(self)

    def _cmp0(self, o, what):
        if not (isinstance(o, (int, float)) and o == 0):
            raise Intractable("turn compared with a non-zero value")
        s = self.sign()
        return {"gt": s > 0, "lt": s < 0, "ge": s >= 0, "le": s <= 0}[what]

    def __gt__(self, o):
        return self._cmp0(o, "gt")

    def __lt__(self, o):
        return self._cmp0(o, "lt")

    def __ge__(self, o):
        return self._cmp0(o, "ge")

    def __le__(self, o):
        return self._cmp0(o, "le")

    def __sub__(self, o):
        if isinstance(o, int) and not isinstance(o, bool):
            return Turn([(self.a, self.b)], -o, [self])
        raise Intractable("unexpected arithmetic on a raw turn")

    def as_turn(self):
        return Turn([(self.a, self.b)], 0, [self])

    def __radd__(self, o):
        return self.as_turn().__radd__(o)

    def __add__(self, o):
        if isinstance(o, int) and not isinstance(o, bool):
            return Turn([(self.a, self.b)], +o, [self])
        return self.as_turn() + o

    def __neg__(self):
        raise Intractable("negated turn")


class _AbsTurn:
    def __init__(self, t):
        self.t = t

    def _half(self, o):
        if o != 0.5:
            raise Intractable("|turn| compared with something other than 0.5")

    def __lt__(self, o):
        self._half(o)
        return self.t.wrapclass() == 0

    def __ge__(self, o):
        self._half(o)
        return self.t.wrapclass() != 0

    def __le__(self, o):
        # |raw| <= 1/2: additionally true at exactly half a turn
        self._half(o)
        t = self.t
        if t.wrapclass() == 0:
            return True
        a, b = t.a, t.b
        return bool(a.x * b.y - a.y * b.x == 0)

    def __gt__(self, o):
        return not self.__le__(o)


def _same_num(p, q):
    """identical values; float-derived constants (e.g. the control points of Primitive.circle) may differ by rounding:
    two values whose difference is a constant below 1e-9 count as the same chain vertex"""
    p, q = lift(p), lift(q)
    if p.n == q.n and p.d == q.d:
        return True
    if p.d is None and q.d is None:
        d = p.n - q.n
        return d.is_const() and abs(d.cval()) < Fraction(1, 10**9)
    return False


class Turn:
    """sum of wrapped turns: chain of (a, b) angle pairs plus an integer offset"""

    def __init__(self, chain, k, raws=None):
        self.chain, self.k = chain, k
        self.raws = raws or []

    def __add__(self, o):
        if isinstance(o, TurnRaw):
            o = o.as_turn()
        if isinstance(o, int) and not isinstance(o, bool):
            if o == 0:
                return self
            return Turn(self.chain, self.k + o, self.raws)
        if not isinstance(o, Turn):
            raise Intractable("turn added to a number")
        return Turn(self.chain + o.chain, self.k + o.k, self.raws + o.raws)

    def __sub__(self, o):
        if isinstance(o, int) and not isinstance(o, bool):
            return Turn(self.chain, self.k - o, self.raws)
        raise Intractable("turn minus a non-integer")

    def wrapped_in_half_turn(self):
        """for a single-piece turn: is raw + offset within [-1/2, 1/2]?"""
        assert len(self.raws) == 1
        return self.k == -self.raws[0].wrapclass() or (self.k == 0 and self.raws[0].wrapclass() != 0 and _AbsTurn(self.raws[0]) <= 0.5)

    __radd__ = __add__

    def closed(self):
        ch = self.chain
        for (a0, b0), (a1, b1) in zip(ch, ch[1:] + ch[:1]):
            if not (_same_num(b0.x, a1.x) and _same_num(b0.y, a1.y)):
                return False
        return True

    def round(self):
        # the exact angle sum over a closed chain telescopes to zero, so the wrapped
        # sum is exactly the integer offset
        if not self.closed():
            raise Intractable("winding sum over an open chain")
        return self.k

    # the library may compare a partial (one-segment) winding number in tests only
    def __float__(self):
        raise Intractable("float() of an angle sum")


def symarctan2(y, x):
    if isinstance(y, (Sym, Fraction, int)) or isinstance(x, (Sym, Fraction, int)):
        if isinstance(y, bool) or isinstance(x, bool):
            return _np.arctan2(y, x)
        return Angle(y, x)
    return _np.arctan2(y, x)


class TrigPair:
    """installed by harnesses that rotate by an exact (cos, sin) pair"""

    table = {}  # id/key of angle object -> (cos, sin)


class SymAngle:
    """an abstract rotation angle with given exact cos/sin (Sym or Fraction)"""

    def __init__(self, cos, sin):
        self.cos, self.sin = cos, sin

    def __float__(self):
        return 0.0

    def __imul__(self, k):
        raise Intractable("symbolic angle scaled")

    def __mul__(self, k):
        raise Intractable("symbolic angle scaled")


def symcos(a):
    if isinstance(a, SymAngle):
        return a.cos
    if isinstance(a, Sym):
        raise Intractable("cos of a symbolic number")
    return _np.cos(a)


def symsin(a):
    if isinstance(a, SymAngle):
        return a.sin
    if isinstance(a, Sym):
        raise Intractable("sin of a symbolic number")
    return _np.sin(a)


class NpShim:
    def __getattr__(self, k):
        return getattr(_np, k)

    arctan2 = staticmethod(symarctan2)
    cos = staticmethod(symcos)
    sin = staticmethod(symsin)


# ------------------------------------------------------------------------ set


class SymSet:
    """order-preserving container that de-duplicates through == (forks are recorded when an
    element is symbolic); stands in for `set` inside the shapepy modules"""

    def __init__(self, it=()):
        self._l = []
        for x in it:
            self.add(x)

    def add(self, x):
        for e in self._l:
            if e == x:
                return
        self._l.append(x)

    def __iter__(self):
        return iter(list(self._l))

    def __len__(self):
        return len(self._l)

    def __contains__(self, x):
        for e in self._l:
            if e == x:
                return True
        return False

    def remove(self, x):
        for i, e in enumerate(self._l):
            if e == x:
                self._l.pop(i)
                return
        raise KeyError(x)

    def discard(self, x):
        try:
            self.remove(x)
        except KeyError:
            pass

    def __or__(self, o):
        r = SymSet(self._l)
        for x in o:
            r.add(x)
        return r

    __ior__ = __or__

    def __and__(self, o):
        o = SymSet(o)
        return SymSet(x for x in self._l if x in o)

    def __sub__(self, o):
        o = SymSet(o)
        return SymSet(x for x in self._l if x not in o)

    __isub__ = __sub__

    def __bool__(self):
        return bool(self._l)


# -------------------------------------------------------------------- install

MODELLED = {
    "float", "int", "round", "set", "math.sqrt", "np.arctan2", "np.cos", "np.sin",
}

_installed = False


def install():
    """inject the stubs into the shapepy module namespaces (idempotent)"""
    global _installed
    import shapepy.curve
    import shapepy.jordancurve
    import shapepy.polygon
    import shapepy.primitive
    import shapepy.shape

    mods = [shapepy.polygon, shapepy.curve, shapepy.jordancurve, shapepy.shape, shapepy.primitive]
    try:
        import shapepy.plot

        mods.append(shapepy.plot)
    except Exception:  # matplotlib is environment
        pass
    for M in mods:
        M.float = symfloat_t
        M.round = symround
        M.int = symint
        M.set = SymSet
    shapepy.polygon.math = MathShim()
    shapepy.polygon.np = NpShim()
    shapepy.curve.np = NpShim()
    _installed = True


def uninstall():
    """remove the stubs again (scenarios without symbolic inputs run the library as it is)"""
    global _installed
    import math as _math

    import numpy as _np
    import shapepy.curve
    import shapepy.jordancurve
    import shapepy.polygon
    import shapepy.primitive
    import shapepy.shape

    mods = [shapepy.polygon, shapepy.curve, shapepy.jordancurve, shapepy.shape, shapepy.primitive]
    if "shapepy.plot" in sys.modules:
        mods.append(sys.modules["shapepy.plot"])
    for M in mods:
        for name in ("float", "round", "int", "set"):
            if name in M.__dict__:
                delattr(M, name)
    shapepy.polygon.math = _math
    shapepy.polygon.np = _np
    shapepy.curve.np = _np
    _installed = False


def installed():
    return _installed
