"""Path-exhaustive exploration (generational DFS) of a function over symbolic reals."""
from __future__ import annotations

import time
import traceback
from fractions import Fraction

import z3

from . import core
from .core import Atom, Band, Budget, Intractable, PathAbort, Sym, Tracer


def simplest_between(a: Fraction, b: Fraction) -> Fraction:
    """the rational with the smallest denominator in the closed interval [a, b]"""
    if a > b:
        a, b = b, a
    if a == b:
        return a
    import math

    fa = math.floor(a)
    if fa + 1 <= b or a == fa:
        return Fraction(fa if a == fa else fa + 1)
    # same integer part: recurse on the reciprocals of the fractional parts
    r = simplest_between(1 / (b - fa), 1 / (a - fa))
    return fa + 1 / r


def simplify_env(env, atoms_taken, domain, maxden_steps=(1, 2, 4, 8, 10, 16, 64, 100, 1000, 10**4, 10**5, 10**6, 10**7, 10**8), second_model=None):
    """find small-denominator rationals satisfying all atoms (exact evaluation); the
    search is coordinate-wise and falls back to the model itself"""

    def ok(e):
        for a in domain:
            if not a.holds(e):
                return False
        for a, tk in atoms_taken:
            h = a.holds(e)
            if tk in (True, None):
                if not h:
                    return False
            elif h:
                return False
        return True

    cur = list(env)
    for i in range(len(cur)):
        v = cur[i]
        if v.denominator == 1:
            continue
        for md in maxden_steps:
            c = v.limit_denominator(md)
            if c == v:
                break
            trial = list(cur)
            trial[i] = c
            if ok(trial):
                cur = trial
                break
        if cur[i].denominator > 10**6 and second_model is not None:
            # ask the solver for another point of the cell on either side and take the
            # simplest rational in between (cells are convex in each coordinate up to != atoms)
            for direction in (1, -1):
                w = second_model(i, cur, direction)
                if w is None:
                    continue
                c = simplest_between(cur[i], w)
                trial = list(cur)
                trial[i] = c
                if c.denominator < cur[i].denominator and ok(trial):
                    cur = trial
                    break
    return cur


class _alarm:
    """wall-clock budget of one path (a symbolic run that loops without deciding anything)"""

    def __init__(self, seconds):
        self.seconds = seconds

    def _fire(self, signum, frame):
        raise Budget(f"path exceeded {self.seconds}s")

    def __enter__(self):
        import signal

        self.old = signal.signal(signal.SIGALRM, self._fire)
        signal.setitimer(signal.ITIMER_REAL, self.seconds)

    def __exit__(self, *a):
        import signal

        signal.setitimer(signal.ITIMER_REAL, 0)
        signal.signal(signal.SIGALRM, self.old)
        return False


class Leaf:
    __slots__ = ("env", "ndec", "exc", "out", "kind", "info", "pc", "nl", "concretized", "tb")

    def __init__(self):
        self.info = {}


def explore(
    names,
    fn,
    domain=None,
    on_leaf=None,
    max_paths=100000,
    time_budget=None,
    timeout_ms=10000,
    seed_env=None,
    raw=False,
    verbose=False,
    max_decisions=20000,
    path_timeout=120,
    max_degree=6,
):
    """Explore every feasible control path of ``fn(xs)`` where xs are symbolic reals.

    domain: callable xs -> iterable of SymBool (not forced) restricting the inputs.
    on_leaf(tr, leaf): called at the end of each path with the tracer still holding the
    path condition (tr.decisions); may post obligations with tr.check(*tr.pc_z3(), formula).

    Returns (stats, leaves).  stats['exhaustive'] is True iff the work list emptied and no
    alternative was left undecided: then the leaves' path conditions partition the domain.
    """
    nvars = len(names)
    core.raw_enable(raw)
    # domain atoms
    tr0 = Tracer(names, (), timeout_ms=timeout_ms, max_decisions=max_decisions)
    core.set_tracer(tr0)
    dom_atoms = []
    if domain is not None:
        tr0.begin([Fraction(0)] * nvars)
        xs = [Sym.var(i, 0) for i in range(nvars)]
        for sb in domain(xs):
            d = sb.diff
            assert d.d is None
            p, op = core.normalise(d.n, sb.op)
            dom_atoms.append(Atom(p, op))
    tr = Tracer(names, dom_atoms, timeout_ms=timeout_ms, max_decisions=max_decisions)
    tr.max_degree = max_degree
    core.set_tracer(tr)
    stats = dict(paths=0, infeasible_alt=0, unknown_alt=0, diverged=0, by_kind={}, vacuous=False)
    if seed_env is None:
        r, m = tr.check()
        if r != "sat":
            stats["vacuous"] = True
            stats["exhaustive"] = False
            return stats, []
        seed_env = simplify_env(tr.model_env(m), [], dom_atoms)
    work = [([], list(seed_env))]
    leaves = []
    t0 = time.time()
    out_of_budget = False
    while work:
        if stats["paths"] >= max_paths or (time_budget and time.time() - t0 > time_budget):
            out_of_budget = True
            break
        prefix, env = work.pop()
        tr.begin(env)
        if raw:
            core.raw_enable(True)
        xs = [Sym.var(i, env[i]) for i in range(nvars)]
        leaf = Leaf()
        leaf.env = list(env)
        leaf.exc = None
        leaf.out = None
        leaf.tb = None
        try:
            with _alarm(path_timeout):
                leaf.out = fn(xs)
            leaf.kind = "return"
        except Band as e:
            leaf.kind = "band"
            leaf.exc = e
        except Budget as e:
            leaf.kind = "budget"
            leaf.exc = e
        except Intractable as e:
            leaf.kind = "intractable"
            leaf.exc = e
        except PathAbort as e:
            leaf.kind = "intractable"
            leaf.exc = e
        except RecursionError as e:
            leaf.kind = "budget"
            leaf.exc = e
        except Exception as e:  # the library raised
            leaf.kind = "raise"
            leaf.exc = e
            leaf.tb = traceback.extract_tb(e.__traceback__)[-6:]
        dec = list(tr.decisions)
        leaf.ndec = len(dec)
        leaf.concretized = tr.concretized
        leaf.pc = dec
        for i, (a, tk) in enumerate(prefix):
            if not (i < len(dec) and dec[i][0].key == a.key and dec[i][1] == tk):
                stats["diverged"] += 1
                leaf.info["diverged_at"] = i
                break
        stats["paths"] += 1
        stats["by_kind"][leaf.kind] = stats["by_kind"].get(leaf.kind, 0) + 1
        if on_leaf is not None:
            on_leaf(tr, leaf)
        leaf.out = None if not getattr(on_leaf, "keep_out", False) else leaf.out
        leaves.append(leaf)
        if verbose:
            print(f"path {stats['paths']} ndec={len(dec)} kind={leaf.kind} t={time.time()-t0:.1f}s q={tr.nqueries}", flush=True)
        # schedule the alternatives of the decisions beyond the forced prefix
        tr.solver.push()
        for a, tk in dec[: len(prefix)]:
            tr.solver.add(a.z3(tr) if tk in (True, None) else a.z3neg(tr))
        for i in range(len(prefix), len(dec)):
            a, tk = dec[i]
            if tk is None:
                tr.solver.add(a.z3(tr))
                continue
            za = a.z3(tr)
            alt = a.z3neg(tr) if tk else za
            nl = a.p.degree() > 1
            r, m = tr.check(alt, timeout_ms=tr.nl_timeout_ms if nl else None)
            if r == "sat":
                newp = dec[:i] + [(a, not tk)]

                def second(j, cur, direction, _alt=alt):
                    pins = [tr.zvars[k] == core.rv_const(cur[k]) for k in range(nvars) if k != j]
                    side = tr.zvars[j] > core.rv_const(cur[j]) if direction > 0 else tr.zvars[j] < core.rv_const(cur[j])
                    r2, m2 = tr.check(_alt, side, *pins, timeout_ms=1000)
                    return core.model_value(m2, tr.zvars[j]) if r2 == "sat" else None

                e = simplify_env(tr.model_env(m), newp, dom_atoms, second_model=second)
                work.append((newp, e))
            elif r == "unsat":
                stats["infeasible_alt"] += 1
            else:
                stats["unknown_alt"] += 1
            tr.solver.add(za if tk else a.z3neg(tr))
        tr.solver.pop()
    stats["exhaustive"] = (not work) and not out_of_budget and stats["unknown_alt"] == 0 and stats["diverged"] == 0
    stats["out_of_budget"] = out_of_budget
    stats["pending"] = len(work)
    stats["queries"] = tr.nqueries
    stats["q_by_answer"] = dict(tr.q_by_answer)
    stats["tsolve"] = round(tr.tsolve, 3)
    stats["wall"] = round(time.time() - t0, 3)
    stats["decisions"] = sum(l.ndec for l in leaves)
    stats["nonlinear_atoms"] = tr.nonlinear_atoms
    return stats, leaves
