"""Shared driver of the per-property checks: worker pools, replays, known findings,
VIOLATION / KNOWN-FINDING lines, evidence files."""
from __future__ import annotations

import json
import multiprocessing as mp
import os
import sys
import time
from fractions import Fraction

ROOT = os.path.dirname(os.path.dirname(os.path.abspath(__file__)))
EVID = os.path.join(ROOT, "evidence")
REPLAYS = os.path.join(ROOT, "replays")
KNOWN = os.path.join(ROOT, "known_findings.json")

HARNESS_ERROR = 3

COMMON_ASSUMPTIONS = [
    "exact-real semantics: int/Fraction inputs; Python float literals in the library are read as their exact binary values; floating-point rounding is outside the claim",
    "stubs injected into the shapepy module namespaces (symx/shims.py): float/int/round identity on exact values, math.sqrt as lazy algebraic value, np.arctan2 + wrap logic as the real-number atan2 specification (closed-chain winding sum = integer), set as ==-deduplicating container, np.cos/np.sin of an abstract angle as a given exact (cos, sin) pair",
    "trusted: z3 5.1 (cvc5 1.4 re-check in the thorough tier where stated), Python, the polynomial normaliser of symx/core.py (validated per path by replaying the witness on the plain library), the crossing-number characterisation of polygon interiors",
    "tolerance bands: a path on which a tolerance comparison of the library falls strictly inside its ambiguity band is terminated and counted (band cells), not verified",
]


def _init_sym():
    sys.setrecursionlimit(5000)
    sys.set_int_max_str_digits(0)
    from symx import shims

    shims.install()


def _init_plain():
    sys.setrecursionlimit(5000)
    sys.set_int_max_str_digits(0)


def load_known():
    try:
        with open(KNOWN) as f:
            return json.load(f)
    except FileNotFoundError:
        return {"findings": [], "fixed": []}


def sig_matches(known_sig, sig):
    return all(sig.get(k) == v for k, v in known_sig.items() if not k.startswith("_"))


class Runner:
    def __init__(self, prop, tier, seed=0, level="model_checking"):
        self.prop = prop
        self.tier = tier
        self.seed = seed
        self.level = level
        self.t0 = time.time()
        self.results = []
        self.harness_errors = []
        self.violations = []  # confirmed, not known
        self.known_hits = {}  # finding id -> count
        self.unreproduced = []
        self.unrepresentable_cex = []
        self.spot_checked = 0
        self.exact_compare = False
        self.extra_violations = []
        self.inexact = []
        self.mismatches = []
        self.replayed = 0
        self.extra = {}
        self.samples = []
        self.notes = []

    def run_specs(self, specs, nproc=None, deadline_s=None, replay=True):
        """explore all specs (symbolic pool), replay all witnesses and counterexamples (plain pool)"""
        from symx import jobs

        nproc = nproc or min(16, os.cpu_count() or 4)
        ctx = mp.get_context("spawn")
        import random

        order = list(range(len(specs)))
        random.Random(self.seed).shuffle(order)
        # long jobs first when a weight is given
        order.sort(key=lambda i: -specs[i].get("weight", 1))
        sym_pool = ctx.Pool(nproc, initializer=_init_sym, maxtasksperchild=8)
        plain_pool = ctx.Pool(max(4, nproc // 2), initializer=_init_plain, maxtasksperchild=50)
        default_budget = 200 if self.tier == "quick" else 3000
        for sp in specs:
            if sp.get("time_budget") is None:
                sp["time_budget"] = default_budget
        pend = {i: sym_pool.apply_async(jobs.run_symbolic, (specs[i],)) for i in order}
        replay_pend = []
        done = set()
        t_end = None if deadline_s is None else self.t0 + deadline_s
        not_run = []
        while len(done) < len(pend):
            progressed = False
            for i, ar in pend.items():
                if i in done or not ar.ready():
                    continue
                progressed = True
                done.add(i)
                try:
                    res = ar.get()
                except Exception as e:  # worker died
                    res = dict(spec=specs[i], ok=False, error=repr(e))
                self.results.append(res)
                if not res.get("ok"):
                    self.harness_errors.append(("job failed", res.get("spec"), res.get("error")))
                    continue
                if replay:
                    envs = [l["env"] for l in res["leaves"] if l["kind"] in ("return", "raise") and not l.get("unrepresentable")]
                    spot = [l["env"] for l in res["leaves"] if l["kind"] in ("band", "intractable", "budget", "concretized") and not l.get("unrepresentable")]
                    res["_spot_envs"] = spot
                    # replay in chunks so that one big job does not serialise on a single replay worker
                    CH = 40
                    chunks = []
                    for k in range(0, max(len(envs), 1), CH):
                        chunks.append(dict(spec=res["spec"], envs=envs[k : k + CH], violations=[], spot_envs=[]))
                    for k in range(0, len(spot), CH):
                        chunks.append(dict(spec=res["spec"], envs=[], violations=[], spot_envs=spot[k : k + CH]))
                    chunks.append(dict(spec=res["spec"], envs=[], violations=res["violations"], spot_envs=[]))
                    replay_pend.append((res, [plain_pool.apply_async(jobs.run_replay, (t,)) for t in chunks]))
            if t_end and time.time() > t_end:
                for i in pend:
                    if i not in done:
                        not_run.append(specs[i])
                sym_pool.terminate()
                break
            if not progressed:
                time.sleep(0.05)
        sym_pool.close() if not not_run else None
        self.not_run = not_run
        for res, ars in replay_pend:
            merged = dict(ok=True, digests=[], confirms=[], spots=[])
            failed = False
            for ar in ars:
                try:
                    rep = ar.get(timeout=3600)
                except Exception as e:
                    self.harness_errors.append(("replay failed", res["spec"], repr(e)))
                    failed = True
                    break
                if not rep.get("ok"):
                    self.harness_errors.append(("replay failed", res["spec"], rep.get("error")))
                    failed = True
                    break
                for k in ("digests", "confirms", "spots"):
                    merged[k] += rep.get(k, [])
            if not failed:
                self._merge_replay(res, merged)
        plain_pool.terminate()
        sym_pool.terminate()

    def _merge_replay(self, res, rep):
        from symx import jobs

        leaves = [l for l in res["leaves"] if l["kind"] in ("return", "raise") and not l.get("unrepresentable")]
        for l, dg in zip(leaves, rep["digests"]):
            self.replayed += 1
            l["replayed"] = True
            if not jobs.same_digest(l["digest"], dg, Fraction(res["spec"]["digest_tol"]) if res["spec"].get("digest_tol") else None):
                l["mismatch"] = True
                self.mismatches.append(dict(spec=res["spec"], env=l["env"], symbolic=l["digest"], plain=dg))
            elif self.exact_compare:
                diffs = jobs.exact_diffs(l["digest"], dg)
                if diffs:
                    self.inexact.append(dict(spec=res["spec"], env=l["env"], diffs=diffs[:6]))
        for env, hits in zip(res.get("_spot_envs", []), rep.get("spots", [])):
            if hits is None:
                continue
            self.spot_checked += 1
            for h in hits:
                res["violations"].append(dict(name=h["name"], env=env, meta={"spot_check": True}, kind="spot", cell=env, reproduced=True,
                                              text="[spot check of a cell the symbolic run could not finish] " + h["text"], sig=h["sig"], spec=res["spec"]))
        for v, c in zip(res["violations"], rep["confirms"]):
            v["reproduced"] = c["reproduced"]
            if c.get("env"):
                v["env"] = c["env"]
            v["text"] = c["text"]
            v["sig"] = c["sig"]
            v["spec"] = res["spec"]
            if c.get("skipped"):
                v["skipped"] = True
                self.unrepresentable_cex.append(v)
            elif not c["reproduced"]:
                self.unreproduced.append(v)

    # ---------------------------------------------------------------- verdicts
    def classify(self):
        known = [k for k in load_known().get("findings", []) if k["property"] == self.prop]
        for res in list(self.results) + [dict(ok=True, violations=self.extra_violations)]:
            if not res.get("ok"):
                continue
            for v in res["violations"]:
                if not v.get("reproduced"):
                    continue
                for k in known:
                    if sig_matches(k["signature"], v.get("sig", {})):
                        self.known_hits.setdefault(k["id"], []).append(v)
                        v["known"] = k["id"]
                        break
                else:
                    self.violations.append(v)
        return known

    def inexact_to_violations(self, name="stored value differs from the exact rational"):
        """(exact_compare) turn the values that the plain library stores differently from the exact rational of the
        symbolic run into violations; the signature says where the value sits and how large the difference is"""
        for ix in self.inexact:
            diffs = ix["diffs"]
            worst = max(abs(Fraction(a[1]) - (Fraction(float(b[1])) if b[0] == "f" else Fraction(b[1]))) for _, a, b in diffs)
            isfloat = any(b[0] == "f" for _, a, b in diffs)
            where = sorted({p.split("/")[1] for p, _, _ in diffs})
            sig = {"name": "float in exact output"} if isfloat else {"name": "inexact rational", "difference_below_1e-10": bool(worst < Fraction(1, 10**10)), "crossing_parameter_inexact": "crossings" in where,
                                                                             "segment_evaluation_inexact": bool({"v", "ders", "eval_tuple", "vals"} & set(where)), "_where": where,
                                                                             "all_inputs_but_the_last_are_integers": all(Fraction(v).denominator == 1 for v in ix["env"][:-1])}
            self.extra_violations.append(dict(name=name, env=ix["env"], spec=ix["spec"], reproduced=True, meta={},
                                              text=f"{ix['spec']['scenario']} {ix['spec'].get('params')} at {ix['env']}: exact vs stored {diffs[:2]} (max difference {float(worst):.3g})", sig=sig))

    def finish(self, coverage_extra=None, assumptions=None, explanation=None):
        known = self.classify()
        os.makedirs(EVID, exist_ok=True)
        os.makedirs(REPLAYS, exist_ok=True)
        import glob

        for old in glob.glob(os.path.join(REPLAYS, f"{self.prop}_{self.tier}_*.json")):
            os.remove(old)
        # aggregate
        ok = [r for r in self.results if r.get("ok")]
        leaves = [l for r in ok for l in r["leaves"]]
        by_kind = {}
        for l in leaves:
            by_kind[l["kind"]] = by_kind.get(l["kind"], 0) + 1
        transitions = sum(l["ndec"] for l in leaves)
        q = {"sat": 0, "unsat": 0, "unknown": 0}
        tsolve = 0.0
        for r in ok:
            for k, v in r["stats"].get("q_by_answer", {}).items():
                q[k] = q.get(k, 0) + v
            for k, v in r["ob_queries"].items():
                q[k] = q.get(k, 0) + v
            tsolve += r["stats"].get("tsolve", 0)
        functions = sorted({f for r in ok for f in r.get("functions", [])})
        cv = {"queries": 0, "agree": 0, "disagree": 0, "unknown": 0, "errors": 0, "time": 0.0}
        for r in ok:
            for k in cv:
                cv[k] += r.get("cvc5", {}).get(k, 0)
        cv["time"] = round(cv["time"], 2)
        if cv["disagree"]:
            self.harness_errors.append(("z3 and cvc5 disagree on an obligation", cv["disagree"], [r.get("cvc5_disagreements") for r in ok if r.get("cvc5_disagreements")][:1]))
        fam = []
        for r in ok:
            s = r["stats"]
            fam.append(dict(scenario=r["spec"]["scenario"], params=r["spec"].get("params", {}), paths=s["paths"],
                            exhaustive=bool(s["exhaustive"]), by_kind=s["by_kind"], unknown_alt=s["unknown_alt"],
                            obligations=r["obligations"], discharged=r["discharged"], undecided=r["undecided"],
                            vacuous=s.get("vacuous", False), wall_s=r["wall"]))
        vac = [f for f in fam if f["vacuous"] or f["paths"] == 0]
        for f in vac:
            self.harness_errors.append(("vacuous scenario", f["scenario"], f["params"]))
        # print lines
        exit_code = 0
        printed_known = set()
        for k in known:
            hits = self.known_hits.get(k["id"], [])
            if hits or k.get("_reproduced"):
                print(f"KNOWN-FINDING: property={self.prop} {k['what']} [{k['id']}; {len(hits)} cell(s) on this run]")
                printed_known.add(k["id"])
        for n, v in enumerate(self.violations):
            path = os.path.join(REPLAYS, f"{self.prop}_{self.tier}_{n}.json")
            with open(path, "w") as f:
                json.dump(dict(property=self.prop, spec=v["spec"], name=v["name"], env=v["env"], text=v.get("text"), sig=v.get("sig"), meta=v.get("meta")), f, indent=1, default=str)
            if n < 20:
                print(f"VIOLATION property={self.prop} replay={path}")
                print(f"  {v['name']}: {v.get('text')}")
            exit_code = 1
        if self.unreproduced:
            for v in self.unreproduced[:5]:
                print(f"HARNESS-ERROR: counterexample did not reproduce on the plain library: {v['name']} env={v['env']} spec={v['spec']['scenario']} {v['spec'].get('params')} :: {v.get('text')}")
            self.harness_errors.append(("unreproduced counterexamples", len(self.unreproduced), None))
        for h in self.harness_errors[:10]:
            if h[0] != "unreproduced counterexamples":
                print("HARNESS-ERROR:", h[0], h[1], (str(h[2]) or "")[-1500:])
        if self.harness_errors and exit_code == 0:
            exit_code = HARNESS_ERROR
        verified = sum(1 for l in leaves if l["kind"] == "return" and all(o[1] == "unsat" for o in l.get("obl", [])))
        cov = dict(
            states=len(leaves),
            transitions=transitions,
            traces_validated_against_impl=self.replayed,
            samples=self.samples[:8] or [dict(scenario=r["spec"]["scenario"], params=r["spec"].get("params"), witness=dict(zip(r.get("names", []), r["leaves"][0]["env"])) if r["leaves"] else None,
                                              outcome=r["leaves"][0].get("digest") if r["leaves"] else None) for r in ok[:6]],
            exhaustive=bool(ok) and all(f["exhaustive"] for f in fam) and not getattr(self, "not_run", []),
            cells_by_class=by_kind,
            cells_verified=verified,
            obligations=sum(r["obligations"] for r in ok),
            discharged=sum(r["discharged"] for r in ok),
            undecided_obligations=sum(r["undecided"] for r in ok),
            solver_queries=q,
            solver_time_s=round(tsolve, 2),
            cvc5_recheck_of_obligations=cv if cv["queries"] else "not run in this tier (set by --tier thorough)",
            unfinished_cells_spot_checked_on_plain_library=self.spot_checked,
            shadow_mismatches=len(self.mismatches),
            mismatch_samples=self.mismatches[:3],
            unreproduced_counterexamples=len(self.unreproduced),
            unrepresentable_counterexample_candidates=len(self.unrepresentable_cex),
            unrepresentable_candidate_samples=[dict(name=v["name"], env=v["env"], scenario=v["spec"]["scenario"], params=v["spec"].get("params")) for v in self.unrepresentable_cex[:3]],
            unrepresentable_witnesses=sum(1 for l in leaves if l.get("unrepresentable")),
            known_finding_cells={k: len(v) for k, v in self.known_hits.items()},
            known_finding_samples={k: [dict(scenario=v['spec']['scenario'], params=v['spec'].get('params'), env=v['env'], text=str(v.get('text'))[:400]) for v in vs[:3]] for k, vs in self.known_hits.items()},
            functions_encoded=functions,
            families=fam,
            families_not_run=[dict(scenario=s["scenario"], params=s.get("params")) for s in getattr(self, "not_run", [])],
            engine="SYMX path-exhaustive symbolic execution of /repo/src/shapepy (regenerated on this run) + z3 " + _z3v(),
            explanation=explanation or "",
        )
        cov.update(self.extra)
        if coverage_extra:
            cov.update(coverage_extra)
        ev = dict(property_id=self.prop, tier=self.tier, seed=self.seed, level=self.level, coverage=cov,
                  assumptions=(assumptions or []) + COMMON_ASSUMPTIONS, wall_s=round(time.time() - self.t0, 2),
                  violations=len(self.violations))
        with open(os.path.join(EVID, f"{self.prop}.json"), "w") as f:
            json.dump(ev, f, indent=1, default=str)
        print(f"[{self.prop} {self.tier}] cells={len(leaves)} {by_kind} verified={verified} obligations={cov['obligations']} discharged={cov['discharged']} "
              f"undecided={cov['undecided_obligations']} replayed={self.replayed} mismatches={len(self.mismatches)} known={cov['known_finding_cells']} "
              f"violations={len(self.violations)} exhaustive={cov['exhaustive']} wall={ev['wall_s']}s")
        return exit_code


def _z3v():
    try:
        import z3

        return z3.get_version_string()
    except Exception:
        return "?"
