"""C18 Segment calculus is exact: evaluation, derivative, box, point-on-curve."""
from __future__ import annotations

from fractions import Fraction as F

import z3

from oracles import bezier as BZ
from oracles import region as R
from shapepy import PlanarCurve
from shapepy.curve import IntegratePlanar
from symx import core
from symx.core import Sym, val, zterm


def ctrl(xs, d, off=0):
    return [(xs[off + i], xs[off + d + 1 + i]) for i in range(d + 1)]


def names_ctrl(d):
    return [f"x{i}" for i in range(d + 1)] + [f"y{i}" for i in range(d + 1)]


def zraw(tr, v):
    """z3 term of the operations the library actually executed (raw DAG) -- falls back to the
    canonical polynomial for plain constants"""
    if isinstance(v, Sym) and v.raw is not None:
        return core.raw_z3(v.raw, tr.zvars, tr.rawcache)
    return zterm(v, tr)


class SegEval:
    """segment(t) and derivate(k)(t), k = 1..degree+1, fully symbolic control points and t"""

    nfree = 0
    raw = True

    def __init__(self, degree):
        self.d = degree
        self.names = names_ctrl(degree) + ["t"]

    replay_any_denominator = True

    def extra_envs(self):
        """probe inputs with large denominators: replayed on real Fractions and compared *exactly* with the exact
        values (a type-specific rounding such as a denominator cap only shows on Fraction inputs)"""
        d = self.d
        ints = [F((7 * i * i + 3 * i) % 11 - 5) for i in range(2 * d + 2)]
        fr5 = [F((31 * i + 7) % 19 - 9, 10**5 + 3 + 2 * i) for i in range(2 * d + 2)]
        return [ints + [F(1, 10**9 + 7)], ints + [F(1, 1024)], fr5 + [F(3, 10**5 + 19)], ints + [F(10**6 + 1, 3 * 10**6)]]

    def run(self, xs):
        d = self.d
        seg = PlanarCurve(ctrl(xs, d))
        t = xs[-1]
        v = seg(t)
        ders = []
        for k in range(1, d + 2):
            w = seg.derivate(k)(t)
            ders.append([w[0], w[1]])
        same = seg.eval((t,))[0]
        # again in descending order: the memoised matrices are now warm, also from the higher orders
        again = []
        for k in range(d + 1, 0, -1):
            w = PlanarCurve(ctrl(xs, d)).derivate(k)(t)
            again.append([w[0], w[1]])
        again.reverse()
        return {"v": [v[0], v[1]], "ders": ders, "ders_again": again, "eval_tuple": [same[0], same[1]], "degree": seg.degree, "npts": seg.npts}

    def _oracle(self, X, Y, t):
        d = self.d
        out = {"v": [BZ.bernstein(X, t), BZ.bernstein(Y, t)], "ders": []}
        for k in range(1, d + 2):
            out["ders"].append([BZ.bernstein(BZ.derivative_coords(X, k), t), BZ.bernstein(BZ.derivative_coords(Y, k), t)])
        return out

    def oblige(self, tr, out):
        d = self.d
        z = tr.zvars
        o = self._oracle(z[: d + 1], z[d + 1 : 2 * d + 2], z[-1])
        obs = [("segment(t) differs from the Bernstein sum", z3.Or([zraw(tr, out["v"][i]) != o["v"][i] for i in range(2)] + [zraw(tr, out["eval_tuple"][i]) != o["v"][i] for i in range(2)]), {})]
        for k in range(1, d + 2):
            obs.append((f"derivate({k})(t) is not the derivative", z3.Or([zraw(tr, out["ders"][k - 1][i]) != o["ders"][k - 1][i] for i in range(2)]
                                                                     + [zraw(tr, out["ders_again"][k - 1][i]) != o["ders"][k - 1][i] for i in range(2)]), {"k": k}))
        obs.append(("degree/npts wrong", z3.BoolVal(not (out["degree"] == d and out["npts"] == d + 1)), {}))
        return obs

    def on_raise(self, exc, func, line):
        return "segment calculus raised " + exc

    def confirm(self, name, xs, outcome, exc):
        if name.startswith("segment calculus raised"):
            return exc is not None, str(exc)
        if outcome is None:
            return False, str(exc)
        d = self.d
        o = self._oracle(list(xs[: d + 1]), list(xs[d + 1 : 2 * d + 2]), xs[-1])
        if name.startswith("segment(t)"):
            bad = [val(a) for a in outcome["v"]] != o["v"] or [val(a) for a in outcome["eval_tuple"]] != o["v"]
            return bad, f"degree {d}, ctrl={[str(x) for x in xs[:-1]]}, t={xs[-1]}: library {outcome['v']} vs Bernstein {o['v']}"
        if name.startswith("derivate("):
            k = int(name[len("derivate(") : name.index(")")])
            bad = [val(a) for a in outcome["ders"][k - 1]] != o["ders"][k - 1] or [val(a) for a in outcome["ders_again"][k - 1]] != o["ders"][k - 1]
            return bad, f"degree {d}, k={k}, ctrl={[str(x) for x in xs[:-1]]}, t={xs[-1]}: library {outcome['ders'][k-1]} vs exact {o['ders'][k-1]}"
        return not (outcome["degree"] == d and outcome["npts"] == d + 1), "degree/npts"

    def signature(self, name, xs, outcome, exc):
        return {"name": name.split("(")[0]}


class SegBox:
    """box() contains segment(t) for all t in [0,1]"""

    nfree = 0
    ob_timeout_ms = 60000

    def __init__(self, degree):
        self.d = degree
        self.names = names_ctrl(degree) + ["t"]

    def domain(self, xs):
        return [xs[-1] >= 0, xs[-1] <= 1]

    def run(self, xs):
        seg = PlanarCurve(ctrl(xs, self.d))
        b = seg.box()
        return {"lo": [b.lowpt[0], b.lowpt[1]], "hi": [b.toppt[0], b.toppt[1]], "_pt": None}

    def oblige(self, tr, out):
        d = self.d
        z = tr.zvars
        bx, by = BZ.bernstein(z[: d + 1], z[-1]), BZ.bernstein(z[d + 1 : 2 * d + 2], z[-1])
        lo = [zterm(v, tr) for v in out["lo"]]
        hi = [zterm(v, tr) for v in out["hi"]]
        return [("segment(t) outside box()", z3.Or(bx < lo[0], bx > hi[0], by < lo[1], by > hi[1]), {})]

    def on_raise(self, exc, func, line):
        return "box raised " + exc

    def confirm(self, name, xs, outcome, exc):
        if name.startswith("box raised"):
            return exc is not None, str(exc)
        if outcome is None:
            return False, str(exc)
        d = self.d
        bx, by = BZ.bernstein(list(xs[: d + 1]), xs[-1]), BZ.bernstein(list(xs[d + 1 : 2 * d + 2]), xs[-1])
        lo, hi = [val(v) for v in outcome["lo"]], [val(v) for v in outcome["hi"]]
        bad = bx < lo[0] or bx > hi[0] or by < lo[1] or by > hi[1]
        return bad, f"degree {d} ctrl={[str(x) for x in xs[:-1]]} t={xs[-1]}: point ({bx}, {by}) box {lo}..{hi}"

    def signature(self, name, xs, outcome, exc):
        return {"name": name}


class SegSplit:
    """split(nodes): piece_j(s) = segment(t_j + s (t_{j+1} - t_j))"""

    nfree = 0
    raw = True
    ob_timeout_ms = 5000

    def __init__(self, degree, nnodes):
        self.d, self.k = degree, nnodes
        self.names = names_ctrl(degree) + [f"n{i}" for i in range(nnodes)] + ["s"]

    def domain(self, xs):
        d, k = self.d, self.k
        ns = xs[2 * d + 2 : 2 * d + 2 + k]
        cs = [ns[0] > 0, ns[-1] < 1]
        for a, b in zip(ns[:-1], ns[1:]):
            cs.append(a < b)
        return cs

    def run(self, xs):
        d, k = self.d, self.k
        seg = PlanarCurve(ctrl(xs, d))
        nodes = list(xs[2 * d + 2 : 2 * d + 2 + k])
        s = xs[-1]
        pieces = seg.split(nodes)
        vals = []
        for pc in pieces:
            v = pc(s)
            vals.append([v[0], v[1]])
        return {"npieces": len(pieces), "vals": vals, "degrees": [pc.degree for pc in pieces],
                "ends": [[pc.ctrlpoints[0][0], pc.ctrlpoints[0][1], pc.ctrlpoints[-1][0], pc.ctrlpoints[-1][1]] for pc in pieces]}

    def _oracle(self, X, Y, nodes, s):
        ts = [0] + list(nodes) + [1]
        out = []
        for ta, tb in zip(ts[:-1], ts[1:]):
            u = ta + s * (tb - ta)
            out.append([BZ.bernstein(X, u), BZ.bernstein(Y, u)])
        return out

    def oblige(self, tr, out):
        d, k = self.d, self.k
        z = tr.zvars
        o = self._oracle(z[: d + 1], z[d + 1 : 2 * d + 2], z[2 * d + 2 : 2 * d + 2 + k], z[-1])
        obs = [("wrong number of pieces", z3.BoolVal(out["npieces"] != k + 1 or any(g != d for g in out["degrees"])), {})]
        if out["npieces"] == k + 1:
            obs.append(("piece_j(s) does not retrace the segment", z3.Or([zraw(tr, out["vals"][j][i]) != o[j][i] for j in range(k + 1) for i in range(2)]), {}))
        return obs

    def on_raise(self, exc, func, line):
        return "split raised " + exc

    def confirm(self, name, xs, outcome, exc):
        if name.startswith("split raised"):
            return exc is not None, str(exc)
        if outcome is None:
            return False, str(exc)
        d, k = self.d, self.k
        if name == "wrong number of pieces":
            return outcome["npieces"] != k + 1 or any(g != d for g in outcome["degrees"]), f"{outcome['npieces']} pieces of degrees {outcome['degrees']}"
        o = self._oracle(list(xs[: d + 1]), list(xs[d + 1 : 2 * d + 2]), list(xs[2 * d + 2 : 2 * d + 2 + k]), xs[-1])
        got = [[val(a) for a in v] for v in outcome["vals"]]
        return got != o, f"degree {d}, nodes {[str(n) for n in xs[2*d+2:2*d+2+k]]}, s={xs[-1]}: pieces give {got} vs segment {o}"

    def signature(self, name, xs, outcome, exc):
        d, k = self.d, self.k
        ts = [F(0)] + [F(x) for x in xs[2 * d + 2 : 2 * d + 2 + k]] + [F(1)]
        gap = min(b - a for a, b in zip(ts[:-1], ts[1:]))
        return {"name": name, "split_parameters_closer_than_2e-6": bool(gap < F(2, 10**6))}


SEGS = {"h": [(0, 0), (4, 0)], "d": [(1, 1), (4, 5)], "v": [(2, -1), (2, 3)], "short": [(0, 0), (F(1, 2), F(1, 4))]}


class PointOnLine:
    """`p in segment` for a concrete straight segment and a symbolic point: True => within the
    tolerance; on the segment => True; far => False.  Also segment(t) in segment for all t."""

    nfree = 0
    spot_names = ["point farther than the tolerance reported on the segment", "point of the segment not reported"]

    def __init__(self, seg, mode="point"):
        self.seg, self.mode = seg, mode
        self.names = ["px", "py"] if mode == "point" else ["t"]

    def domain(self, xs):
        if self.mode == "param":
            return [xs[0] >= 0, xs[0] <= 1]
        return []

    def run(self, xs):
        seg = PlanarCurve(SEGS[self.seg])
        p = (xs[0], xs[1]) if self.mode == "point" else seg(xs[0])
        return {"ans": bool(p in seg), "_p": p}

    def oblige(self, tr, out):
        a, b = [(F(x), F(y)) for x, y in SEGS[self.seg]]
        ans = z3.BoolVal(out["ans"])
        if self.mode == "param":
            return [("point of the segment not reported", z3.Not(ans), {})]
        px, py = Sym.var(0, 0), Sym.var(1, 0)
        off = R.z_seg_off(px, py, a, b, R.BAND)
        on = R.z_on_segment(px, py, a, b)
        return [("point farther than the tolerance reported on the segment", z3.And(off, ans), {}), ("point of the segment not reported", z3.And(on, z3.Not(ans)), {})]

    def on_raise(self, exc, func, line):
        return "point-on-segment raised " + exc

    def confirm(self, name, xs, outcome, exc):
        if name.startswith("point-on-segment raised"):
            return exc is not None, str(exc)
        if outcome is None:
            return False, str(exc)
        a, b = [(F(x), F(y)) for x, y in SEGS[self.seg]]
        p = outcome["_p"]
        p = (val(p[0]), val(p[1]))
        d2 = R.x_dist2_seg(p, a, b)
        txt = f"segment {a}-{b}, p={p}: library says {outcome['ans']}, squared distance {d2}"
        if name.startswith("point farther"):
            return outcome["ans"] and d2 >= R.BAND**2, txt  # the same margin as the obligation (z_seg_off implies distance >= BAND)
        return (not outcome["ans"]) and d2 == 0, txt

    def signature(self, name, xs, outcome, exc):
        return {"name": name}


class WindLine:
    """winding contribution of a straight segment a->b about c is the subtended angle in turns,
    wrapped to [-1/2, 1/2] (symbolic a, b, c; the real atan2 specification of the stub decides
    the unwrapped value, the library's own wrap logic is what is checked)"""

    nfree = 0
    timeout_ms = 5000

    def __init__(self, fixed=None):
        self.fixed = fixed
        self.names = ["ax", "ay", "bx", "by", "cx", "cy"] if fixed is None else ["cx", "cy"]

    def run(self, xs):
        if self.fixed is None:
            a, b, c = (xs[0], xs[1]), (xs[2], xs[3]), (xs[4], xs[5])
        else:
            a, b = [(F(x), F(y)) for x, y in SEGS[self.fixed]]
            c = (xs[0], xs[1])
        w = IntegratePlanar.winding_number(PlanarCurve([a, b]), center=c)
        if hasattr(w, "wrapped_in_half_turn"):
            return {"ok": bool(w.wrapped_in_half_turn()), "symbolic": True}
        if hasattr(w, "wrapclass"):
            return {"ok": w.wrapclass() == 0, "symbolic": True}
        # plain library: a float number of turns
        import math

        ang = math.atan2(float(b[1] - c[1]), float(b[0] - c[0])) - math.atan2(float(a[1] - c[1]), float(a[0] - c[0]))
        turns = ang / math.tau
        turns -= round(turns)
        return {"ok": abs(float(w)) <= 0.5 + 1e-12 and abs(float(w) - turns) < 1e-9 or abs(abs(float(w)) - 0.5) < 1e-9, "symbolic": True}

    def oblige(self, tr, out):
        return [("winding contribution is not the subtended angle in [-1/2, 1/2]", z3.BoolVal(not out["ok"]), {})]

    def on_raise(self, exc, func, line):
        if exc == "ZeroDivisionError":
            return None
        return "winding raised " + exc

    def confirm(self, name, xs, outcome, exc):
        if name.startswith("winding raised"):
            return exc is not None, str(exc)
        if outcome is None:
            return False, str(exc)
        return not outcome["ok"], f"inputs {[str(x) for x in xs]}"

    def signature(self, name, xs, outcome, exc):
        return {"name": name}


def specs(tier):
    out = []
    M = "checks.c18"
    for d in range(1, 7):
        out.append(dict(module=M, scenario="SegEval", params=dict(degree=d)))
    for d in (1, 2, 3) if tier == "quick" else (1, 2, 3, 4):
        out.append(dict(module=M, scenario="SegBox", params=dict(degree=d), time_budget=120 if tier == "quick" else 900))
    for d, k in [(1, 1), (2, 1), (3, 1), (1, 2), (2, 2)] + ([(3, 2), (4, 1), (1, 3), (2, 3)] if tier != "quick" else []):
        out.append(dict(module=M, scenario="SegSplit", params=dict(degree=d, nnodes=k), time_budget=300))
    for sname in SEGS:
        out.append(dict(module=M, scenario="PointOnLine", params=dict(seg=sname)))
        out.append(dict(module=M, scenario="PointOnLine", params=dict(seg=sname, mode="param")))
        out.append(dict(module=M, scenario="WindLine", params=dict(fixed=sname)))
    out.append(dict(module=M, scenario="WindLine", params=dict(), time_budget=120 if tier == "quick" else 900))
    return out


def main(tier, seed):
    from checks.common import Runner

    r = Runner("C18", tier, seed)
    from checks import xhair

    xhair.attach(r, ["comb_is_binomial", "comb_symmetric"], "C18")
    r.exact_compare = True
    r.run_specs(specs(tier))
    r.inexact_to_violations("value differs from the exact rational on Fraction input")
    return r.finish(
        explanation="PlanarCurve evaluation, derivatives (k <= degree+1) and split executed under SYMX with *all* control points, the parameter and the "
        "split nodes symbolic (degrees 1..6): the executed arithmetic (raw expression DAG) is compared by z3 with independent Bernstein / blossom terms "
        "(polynomial identities for all inputs); box() containment of segment(t) for t in [0,1] (degrees <= 3/4) as a non-linear real query; "
        "point-on-segment for concrete straight segments with a symbolic point; wrap logic of the winding contribution against the atan2 specification.",
        assumptions=["point-on-curve for degree >= 2 (Newton projection) is outside the encodable fragment", "memoised matrices: each job runs in a fresh worker (cold) and re-uses them across paths (warm)"],
    )
