"""C19 Directly constructed composite shapes equal the ones operators build."""
from __future__ import annotations

from fractions import Fraction as F
from itertools import permutations

import z3

from checks import geom
from checks.c08 import coords, same_coords
from checks.c10 import num_equal
from oracles import region as R
from shapepy import ConnectedShape, DisjointShape, EmptyShape, IntegrateShape, SimpleShape, WholeShape
from symx.core import Sym, val

# members (catalogue polygon name, reversed?) of valid composites; the last member is translated by t*(3,1)
FAMS = {
    "ring": dict(cls="C", members=[("big", False), ("hole", False)], lim=(F(-9, 10), F(9, 10))),
    "ring2": dict(cls="C", members=[("big", False), ("hole", False), ("small", True)], lim=(F(1, 4), F(3, 4))),  # second hole: small cw, kept clear of the first hole
    "pair": dict(cls="D", members=[("square", False), ("far", False)], lim=(F(-1, 1), F(1, 1))),
    "triple": dict(cls="D", members=[("square", False), ("far", False), ("hole", True)], lim=(F(-3, 1), F(-2, 1))),
    "nested": dict(cls="D", members=[("hollow", False), ("tinyring", False)], lim=(F(-1, 20), F(1, 20))),  # a frame inside the hole of a frame
    "neg": dict(cls="C", members=[("square", True), ("far", True)], lim=(F(-1, 1), F(1, 1))),  # two cw squares: an unbounded connected shape
}


def member(name, rev, tx=0, ty=0):
    if name in ("hollow", "tinyring"):
        return geom.make(name, tx, ty)
    return geom.poly(name, tx, ty, rev=rev)


def member_region(name, rev, tx=0, ty=0):
    if name in ("hollow", "tinyring"):
        return geom.region_of_name(name, tx, ty)
    pts = geom.tr_pts(geom.POLY[name], tx, ty, rev=rev)
    ccw = geom._ccw(geom.POLY[name])
    return ("poly", pts, (not ccw) if rev else ccw)


class Composite:
    """ConnectedShape([...]) / DisjointShape([...]) for every ordering of a valid member list (one
    member translated symbolically inside its validity range): same region as the operator result,
    same area/moments, same complement, == with the operator-built shape"""

    nfree = 2
    max_degree = 2

    def __init__(self, fam, order):
        self.fam, self.order = fam, list(order)
        self.names = ["t", "px", "py"]

    def domain(self, xs):
        lo, hi = FAMS[self.fam]["lim"]
        return [xs[0] >= lo, xs[0] <= hi]

    def members(self, xs):
        f = FAMS[self.fam]
        ms = []
        for k, (n, rev) in enumerate(f["members"]):
            last = k == len(f["members"]) - 1
            ms.append(member(n, rev, 3 * xs[0] if last else 0, xs[0] if last else 0))
        return ms

    def regions(self, xs):
        f = FAMS[self.fam]
        rs = []
        for k, (n, rev) in enumerate(f["members"]):
            last = k == len(f["members"]) - 1
            rs.append(member_region(n, rev, 3 * xs[0] if last else 0, xs[0] if last else 0))
        return ("and" if f["cls"] == "C" else "or", rs)

    def probes(self):
        """concrete query points (off every lattice line the catalogue uses): near the centre of each member, between consecutive
        members, between a member's centre and its first vertex, and far away in four directions"""
        f = FAMS[self.fam]
        cs = []
        for n, rev in f["members"]:
            pts = R.polys_of(member_region(n, rev))[0]
            cx, cy = sum(F(p[0]) for p in pts) / len(pts), sum(F(p[1]) for p in pts) / len(pts)
            cs.append((cx, cy))
            cs.append(((cx + 3 * F(pts[0][0])) / 4, (cy + 3 * F(pts[0][1])) / 4))
        mids = [((a[0] + b[0]) / 2, (a[1] + b[1]) / 2) for a, b in zip(cs[::2], cs[2::2])]
        far = [(F(50), F(37)), (F(-50), F(37)), (F(-50), F(-37)), (F(50), F(-37)), (F(0), F(29)), (F(31), F(0))]
        e = (F(1, 7), F(1, 11))
        return [(x + e[0], y + e[1]) for x, y in cs + mids + far]

    def run(self, xs):
        f = FAMS[self.fam]
        ms = self.members(xs)
        cls = ConnectedShape if f["cls"] == "C" else DisjointShape
        S = cls([ms[i] for i in self.order])
        ms2 = self.members(xs)
        O = ms2[0]
        for m in ms2[1:]:
            O = (O & m) if f["cls"] == "C" else (O | m)
        out = {"kinds": [type(S).__name__, type(O).__name__], "eq": bool(S == O), "eq_rev": bool(O == S)}
        E = [(0, 0), (1, 0), (0, 1), (2, 0), (1, 1), (0, 2)]
        out["mS"] = [IntegrateShape.polynomial(S, a, b) for a, b in E]
        out["mO"] = [IntegrateShape.polynomial(O, a, b) for a, b in E]
        out["fS"], out["fO"] = S.__float__(), O.__float__()
        p = (xs[1], xs[2])
        out["_regS"], out["_regO"] = geom.region_of_shape(S), geom.region_of_shape(O)
        inv = ~S
        out["inv_kind"] = type(inv).__name__
        out["_regInv"] = geom.region_of_shape(inv)
        out["_S"] = S
        pr = self.probes()
        out["hasS"] = [bool(q in S) for q in pr]
        out["hasO"] = [bool(q in O) for q in pr]
        out["hasS_open"] = [bool(S.contains_point(q, False)) for q in pr]
        return out

    def oblige(self, tr, out):
        T, Fl = z3.BoolVal(True), z3.BoolVal(False)
        xs = [Sym.var(i, 0) for i in range(3)]
        px, py = xs[1], xs[2]
        want = self.regions(xs)
        polys = R.polys_of(want)
        off = R.z_off_boundary(px, py, polys)
        zw = R.z_in(want, px, py)
        obs = [("constructed composite denotes a region different from the intersection/union of its members", z3.And(off, R.z_in(out["_regS"], px, py) != zw), {}),
               ("operator-built composite denotes a different region", z3.And(off, R.z_in(out["_regO"], px, py) != zw), {}),
               ("complement of the constructed composite is not the complement", z3.And(off, R.z_in(out["_regInv"], px, py) == zw), {}),
               ("constructed composite is not == the operator result (or kinds differ)", Fl if out["eq"] and out["eq_rev"] and out["kinds"][0] == out["kinds"][1] else T, {"kinds": out["kinds"]})]
        same_m = all(num_equal(a, b) for a, b in zip(out["mS"], out["mO"])) and num_equal(out["fS"], out["fO"]) and num_equal(out["fS"], out["mS"][0])
        obs.append(("area / moments differ between constructed and operator-built composite", Fl if same_m else T, {}))
        bad = []
        for q, a, b, c in zip(self.probes(), out["hasS"], out["hasO"], out["hasS_open"]):
            zq = R.z_in(want, q[0], q[1])
            bad.append(z3.And(R.z_off_boundary(q[0], q[1], polys), z3.Or(zq != z3.BoolVal(a), zq != z3.BoolVal(b), zq != z3.BoolVal(c))))
        obs.append(("containment answer of the constructed / operator-built composite at a probe point differs from the truth", z3.Or(bad), {}))
        return obs

    def on_raise(self, exc, func, line):
        return "composite construction raised " + exc

    def confirm(self, name, xs, outcome, exc):
        desc = f"{self.fam} members order {self.order}, last member at ({3*xs[0]}, {xs[0]})"
        if name.startswith("composite construction raised"):
            return exc is not None, desc + f": {exc}"
        if outcome is None:
            return False, str(exc)
        p = (xs[1], xs[2])
        want = self.regions(xs)
        if name.startswith("constructed composite denotes"):
            return R.x_in(geom.concrete_region(outcome["_regS"]), p) != R.x_in(want, p), desc + f": p={p}"
        if name.startswith("operator-built"):
            return R.x_in(geom.concrete_region(outcome["_regO"]), p) != R.x_in(want, p), desc + f": p={p}"
        if name.startswith("complement"):
            return R.x_in(geom.concrete_region(outcome["_regInv"]), p) == R.x_in(want, p), desc + f": p={p}"
        if name.startswith("constructed composite is not =="):
            return not (outcome["eq"] and outcome["eq_rev"] and outcome["kinds"][0] == outcome["kinds"][1]), desc + f": eq={outcome['eq']}/{outcome['eq_rev']} kinds {outcome['kinds']}"
        if name.startswith("containment answer"):
            polys = R.polys_of(want)
            bad = []
            for q, a, b, c in zip(self.probes(), outcome["hasS"], outcome["hasO"], outcome["hasS_open"]):
                if R.x_dist2_boundary(q, polys) > R.BAND**2:
                    w = R.x_in(want, q)
                    if not (a == w and b == w and c == w):
                        bad.append(f"p=({q[0]}, {q[1]}): truth {w}, constructed says {a} (open: {c}), operator-built says {b}")
            return bool(bad), desc + ": " + "; ".join(bad[:3])
        if name.startswith("area"):
            bad = [str(a) + " vs " + str(b) for a, b in zip(outcome["mS"], outcome["mO"]) if val(a) != val(b)]
            return bool(bad) or val(outcome["fS"]) != val(outcome["fO"]), desc + f": {bad[:3]}"
        return False, "unknown"

    def signature(self, name, xs, outcome, exc):
        return {"name": name.split(" raised")[0], "fam": self.fam}


class Degenerate:
    """DisjointShape([S]) is an unshared copy of S; DisjointShape([]) and only-Empty lists are Empty"""

    nfree = 0

    def __init__(self, shape):
        self.shape = shape
        self.names = ["dx", "dy"]

    def domain(self, xs):
        return [xs[0] >= 1, xs[0] <= 9, xs[1] >= 1, xs[1] <= 9]

    def run(self, xs):
        S = geom.make(self.shape)
        D = DisjointShape([S])
        D2 = DisjointShape([EmptyShape(), S, EmptyShape()])
        out = {"kind_same": type(D) is type(S) and type(D2) is type(S), "not_same_object": D is not S and D2 is not S, "eq": bool(D == S),
               "empty": [DisjointShape([]) is EmptyShape(), DisjointShape([EmptyShape()]) is EmptyShape(), DisjointShape([EmptyShape(), EmptyShape()]) is EmptyShape()]}
        before = coords(S)
        D.move(xs[0], xs[1])
        out["unshared"] = same_coords(before, coords(S))
        return out

    def oblige(self, tr, out):
        ok = out["kind_same"] and out["not_same_object"] and out["eq"] and all(out["empty"]) and out["unshared"]
        return [("DisjointShape of a single shape / of nothing is not an unshared copy / Empty", z3.BoolVal(not ok), {})]

    def on_raise(self, exc, func, line):
        return "composite construction raised " + exc

    def confirm(self, name, xs, outcome, exc):
        if name.startswith("composite construction raised"):
            return exc is not None, str(exc)
        if outcome is None:
            return False, str(exc)
        ok = outcome["kind_same"] and outcome["not_same_object"] and outcome["eq"] and all(outcome["empty"]) and outcome["unshared"]
        return not ok, f"{self.shape}: {outcome}"

    def signature(self, name, xs, outcome, exc):
        return {"name": name}


def specs(tier):
    Mo = "checks.c19"
    out = []
    for fam, f in FAMS.items():
        n = len(f["members"])
        perms = list(permutations(range(n)))
        if tier == "quick":
            perms = perms[:2] if n == 2 else [perms[0], perms[-1], perms[2]]
        for p in perms:
            out.append(dict(module=Mo, scenario="Composite", params=dict(fam=fam, order=list(p)), time_budget=120 if tier == "quick" else 1500))
    for s in ["square", "hollow", "cw:penta"]:
        out.append(dict(module=Mo, scenario="Degenerate", params=dict(shape=s)))
    return out


def main(tier, seed):
    from checks.common import Runner

    r = Runner("C19", tier, seed)
    r.run_specs(specs(tier))
    return r.finish(
        explanation="ConnectedShape([...]) / DisjointShape([...]) under SYMX for every ordering of valid member lists (holes, components, clockwise members, unbounded "
        "connected shape), one member translated symbolically within its validity range: z3 decides per path cell (query point free) that the constructed object, the "
        "operator-built object and the Boolean combination of the member regions coincide, that the complement is the complement, == holds both ways, kinds agree, and "
        "area/moments (order <= 2) are identical polynomials; DisjointShape([S]) is an unshared copy (symbolic move), empty lists give Empty.",
        assumptions=["polygonal members, 1 symbolic real"],
    )
