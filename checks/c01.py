"""C01 Boolean operators compute the set-theoretic result, point by point."""
from __future__ import annotations

from checks.boolops import BoolExpr

OPS = ["|", "&", "-", "^"]

PAIRS_QUICK = [("square", "square"), ("tri", "unit")]
EXPRS_QUICK = [("~", ("|", "A", "B")), ("-", ("|", "A", "B"), ("&", "A", "B")), ("+", "A", ("*", "B", "W")), ("&", ("~", "A"), "B"), ("|", "A", ("~", "B")), ("^", "A", ("neg", "B"))]


def spec(A, B, expr, weight=1, time_budget=None, **kw):
    p = dict(A=A, B=B, expr=expr)
    p.update(kw)
    return dict(module="checks.c01", scenario="BoolExpr", params=p, weight=weight, time_budget=time_budget)


def curved_specs(tier):
    """operands with quadratic sides: concrete placements, the query point free (checks/curvedops.py)"""
    from checks.curvedops import CONFIGS

    out = []
    quick = tier == "quick"
    confs = [c for c in CONFIGS if (c[0], c[1], c[2][0]) in {("lens", "vee", "0"), ("lens", "sq1", "3/2"), ("dome", "sq2", "3"), ("pill", "slab", "1"), ("blob", "lens", "0"), ("bite", "sq2", "1"), ("dome", "blob", "2"),
                                                           ("lens", "slab", "3/2")}] if quick else CONFIGS
    for A, B, sh, sc in confs:
        for op in OPS:
            out.append(dict(module="checks.curvedops", scenario="CurvedOps", params=dict(A=A, B=B, op=op, shift=list(sh), scaleB=str(sc), num="float"), time_budget=600 if quick else 2400))
    out.append(dict(module="checks.curvedops", scenario="CurvedOps", params=dict(A="pill", B="slab", op="-", shift=["1", "-2"], num="frac"), time_budget=600))
    out.append(dict(module="checks.curvedops", scenario="CurvedOps", params=dict(A="dome", B="sq2", op="|", shift=["1", "-1"], num="frac"), time_budget=600))
    if not quick:
        for A, B, sh, sc in CONFIGS[:8]:
            for op in ("&", "|"):  # complements of curved operands
                out.append(dict(module="checks.curvedops", scenario="CurvedOps", params=dict(A=A, B=B, op=op, shift=list(sh), scaleB=str(sc), num="float", invA=True), time_budget=2400))
                out.append(dict(module="checks.curvedops", scenario="CurvedOps", params=dict(A=A, B=B, op=op, shift=list(sh), scaleB=str(sc), num="float", invB=True), time_budget=2400))
        for A, B, sh in (("lens", "slab", ("1", "-3")), ("pill", "slab", ("1", "-2")), ("dome", "sq2", ("1", "-1")), ("blob", "sq2", ("-1", "-1")), ("lens", "sq2", ("1", "-6/5"))):
            for op in OPS:  # exact rational coordinates, crossings at rational parameters
                out.append(dict(module="checks.curvedops", scenario="CurvedOps", params=dict(A=A, B=B, op=op, shift=list(sh), num="frac"), time_budget=2400, weight=3))
        # exact rational coordinates, a crossing at an irrational parameter (recorded finding KF-C01-4)
        out.append(dict(module="checks.curvedops", scenario="CurvedOps", params=dict(A="dome", B="sq2", op="&", shift=["3", "1/2"], num="frac"), time_budget=2400, weight=5))
    return out


def specs(tier):
    out = curved_specs(tier)
    if tier == "quick":
        for A, B in PAIRS_QUICK:
            for op in OPS:
                out.append(spec(A, B, [op, "A", "B"]))
        for e in EXPRS_QUICK:
            out.append(spec("square", "unit", e))
        out.append(spec("opring", "unit", ["-", "A", "B"]))
        out.append(spec("opring", "unit", ["^", "A", "B"]))
        out.append(spec("hollow", "tinyring", ["|", "A", "B"], lim="1/20"))
        out.append(spec("hollow", "tinyring", ["^", "A", "B"], lim="1/20"))
        out.append(spec("square", "hollow2", ["-", "A", "B"], lim="3/2"))  # the right operand has several curves
        out.append(spec("hbar", "vbar", ["-", "A", "B"], lim="1/3"))  # a result with two loops, each made of pieces of both operands
        out.append(spec("hbar", "vbar", ["^", "A", "B"], lim="1/3"))
        return out
    pairs = [("square", "square"), ("tri", "unit"), ("penta", "quad"), ("hollow2", "square"), ("two", "square"), ("inv:square", "unit"), ("ell", "tri"),
             ("opring", "unit"), ("youb", "bar2"), ("inv:two", "tri"), ("framedot", "rhombus")]
    for A, B in pairs:
        for op in OPS:
            # the parameter range is cut into slabs so that one pair/operator uses several cores
            for lo, hi in ((-3, -1), (-1, 0), (0, 1), (1, 3)):
                out.append(spec(A, B, [op, "A", "B"], slab=[lo, hi], time_budget=2400, weight=3 if A in ("penta", "framedot", "inv:two") else 1))
    for A, B in [("square", "unit"), ("tri", "square")]:
        for op in OPS:
            out.append(spec(A, B, [op, "A", "B"], direction=[1, 2], time_budget=2400))
            out.append(spec(A, B, [op, "A", "B"], direction=[1, 0], time_budget=2400))
    for e in EXPRS_QUICK + [("^", ("|", "A", "B"), "C"), ("-", "A", ("&", "B", "C")), ("|", ("&", "A", "C"), ("~", "B")), ("&", ("-", "A", "B"), ("~", "C")), ("*", ("+", "A", "B"), ("neg", "E"))]:
        out.append(spec("square", "unit", e, C="tri", time_budget=2400))
        out.append(spec("hollow2", "tri", e, C="unit", time_budget=2400))
    for op in ("|", "&", "-"):
        for sl in ((-2, -1), (-1, 0), (0, 1), (1, 2)):
            out.append(spec("square", "unit", [op, "A", "B"], dof=2, lim=2, slab=list(sl), time_budget=2400, weight=5))
    out.append(spec("hollow", "tinyring", ["|", "A", "B"], lim="1/20"))
    out.append(spec("hollow", "tinyring", ["^", "A", "B"], lim="1/20"))
    return out


def main(tier, seed):
    from checks.common import Runner

    r = Runner("C01", tier, seed)
    r.run_specs(specs(tier))
    return r.finish(
        explanation="The real operators executed under SYMX with B translated symbolically (1 parameter along an integer direction; 2 parameters for square x unit in the "
        "thorough tier); per path cell z3 decides with the query point free that the region of the returned shape is the Boolean combination of the operand regions off "
        "their boundaries (1.5e-6 band); raising / non-returning cells are violations where z3 finds a parameter with transversal boundaries.",
        assumptions=["polygonal catalogue operands (<= 8 edges) incl. holes, several components, unbounded operands, Empty/Whole; expression depth <= 2",
                     "operands with quadratic sides: concrete operand pairs and placements only (the crossing search is a Newton iteration); for each, z3 decides over all points of the "
                     "plane (QF_NRA, degree 2) that the region bounded by the returned pieces is the Boolean combination, outside a 1e-5 band of the operand boundaries; cubic sides outside"],
    )
