"""C01 Boolean operators compute the set-theoretic result, point by point."""
from __future__ import annotations

from checks.boolops import BoolExpr

OPS = ["|", "&", "-", "^"]

PAIRS_QUICK = [("square", "square"), ("tri", "unit")]
EXPRS_QUICK = [("~", ("|", "A", "B")), ("-", ("|", "A", "B"), ("&", "A", "B")), ("+", "A", ("*", "B", "W")), ("&", ("~", "A"), "B"), ("|", "A", ("~", "B")), ("^", "A", ("neg", "B"))]


def spec(A, B, expr, weight=1, time_budget=None, **kw):
    p = dict(A=A, B=B, expr=expr)
    p.update(kw)
    return dict(module="checks.c01", scenario="BoolExpr", params=p, weight=weight, time_budget=time_budget)


def specs(tier):
    out = []
    if tier == "quick":
        for A, B in PAIRS_QUICK:
            for op in OPS:
                out.append(spec(A, B, [op, "A", "B"]))
        for e in EXPRS_QUICK:
            out.append(spec("square", "unit", e))
        out.append(spec("opring", "unit", ["-", "A", "B"]))
        out.append(spec("opring", "unit", ["^", "A", "B"]))
        out.append(spec("hollow", "tinyring", ["|", "A", "B"], lim="1/20"))
        out.append(spec("hollow", "tinyring", ["^", "A", "B"], lim="1/20"))
        out.append(spec("square", "hollow2", ["-", "A", "B"], lim="3/2"))  # the right operand has several curves
        out.append(spec("hbar", "vbar", ["-", "A", "B"], lim="1/3"))  # a result with two loops, each made of pieces of both operands
        out.append(spec("hbar", "vbar", ["^", "A", "B"], lim="1/3"))
        return out
    pairs = [("square", "square"), ("tri", "unit"), ("penta", "quad"), ("hollow2", "square"), ("two", "square"), ("inv:square", "unit"), ("ell", "tri"),
             ("opring", "unit"), ("youb", "bar2"), ("inv:two", "tri"), ("framedot", "rhombus")]
    for A, B in pairs:
        for op in OPS:
            # the parameter range is cut into slabs so that one pair/operator uses several cores
            for lo, hi in ((-3, -1), (-1, 0), (0, 1), (1, 3)):
                out.append(spec(A, B, [op, "A", "B"], slab=[lo, hi], time_budget=2400, weight=3 if A in ("penta", "framedot", "inv:two") else 1))
    for A, B in [("square", "unit"), ("tri", "square")]:
        for op in OPS:
            out.append(spec(A, B, [op, "A", "B"], direction=[1, 2], time_budget=2400))
            out.append(spec(A, B, [op, "A", "B"], direction=[1, 0], time_budget=2400))
    for e in EXPRS_QUICK + [("^", ("|", "A", "B"), "C"), ("-", "A", ("&", "B", "C")), ("|", ("&", "A", "C"), ("~", "B")), ("&", ("-", "A", "B"), ("~", "C")), ("*", ("+", "A", "B"), ("neg", "E"))]:
        out.append(spec("square", "unit", e, C="tri", time_budget=2400))
        out.append(spec("hollow2", "tri", e, C="unit", time_budget=2400))
    for op in ("|", "&", "-"):
        for sl in ((-2, -1), (-1, 0), (0, 1), (1, 2)):
            out.append(spec("square", "unit", [op, "A", "B"], dof=2, lim=2, slab=list(sl), time_budget=2400, weight=5))
    out.append(spec("hollow", "tinyring", ["|", "A", "B"], lim="1/20"))
    out.append(spec("hollow", "tinyring", ["^", "A", "B"], lim="1/20"))
    return out


def main(tier, seed):
    from checks.common import Runner

    r = Runner("C01", tier, seed)
    r.run_specs(specs(tier))
    return r.finish(
        explanation="The real operators executed under SYMX with B translated symbolically (1 parameter along an integer direction; 2 parameters for square x unit in the "
        "thorough tier); per path cell z3 decides with the query point free that the region of the returned shape is the Boolean combination of the operand regions off "
        "their boundaries (1.5e-6 band); raising / non-returning cells are violations where z3 finds a parameter with transversal boundaries.",
        assumptions=["polygonal catalogue operands (<= 8 edges) incl. holes, several components, unbounded operands, Empty/Whole; expression depth <= 2", "curved operands outside"],
    )
