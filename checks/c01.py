"""C01 Boolean operators compute the set-theoretic result, point by point."""
from __future__ import annotations

from checks.boolops import BoolExpr

OPS = ["|", "&", "-", "^"]

PAIRS_QUICK = [("square", "square"), ("tri", "unit")]
EXPRS_QUICK = [("~", ("|", "A", "B")), ("-", ("|", "A", "B"), ("&", "A", "B")), ("+", "A", ("*", "B", "W")), ("&", ("~", "A"), "B"), ("|", "A", ("~", "B")), ("^", "A", ("neg", "B"))]


def spec(A, B, expr, weight=1, time_budget=None, **kw):
    p = dict(A=A, B=B, expr=expr)
    p.update(kw)
    return dict(module="checks.c01", scenario="BoolExpr", params=p, weight=weight, time_budget=time_budget)


def specs(tier):
    out = []
    if tier == "quick":
        for A, B in PAIRS_QUICK:
            for op in OPS:
                out.append(spec(A, B, [op, "A", "B"]))
        for e in EXPRS_QUICK:
            out.append(spec("square", "unit", e))
        out.append(spec("opring", "unit", ["-", "A", "B"]))
        out.append(spec("opring", "unit", ["^", "A", "B"]))
        out.append(spec("hollow", "tinyring", ["|", "A", "B"], lim="1/20"))
        out.append(spec("hollow", "tinyring", ["^", "A", "B"], lim="1/20"))
        return out
    return out


def main(tier, seed):
    from checks.common import Runner

    r = Runner("C01", tier, seed)
    r.run_specs(specs(tier))
    return r.finish(explanation="")
