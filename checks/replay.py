"""./check <id> --replay <file>: re-run a stored counterexample on the plain (un-stubbed) library"""
import json
import sys
from fractions import Fraction


def replay_file(path):
    d = json.load(open(path))
    prop = d.get("property")
    if prop == "C11" or "spec" not in d:
        # crash-model / invalid-argument replays: re-run the whole C11 check (it is a few seconds) and show the matching record
        from checks import c11

        kind = d.get("kind")
        if kind == "rejected transformation left the shape changed":
            found = [f for f in c11.try_invalid(d["method"]) if f["shape"] == d["shape"] and f["level"] == d["level"] and f["args"] == d["args"]]
            print(("REPRODUCED " if found else "not reproduced ") + json.dumps(d)[:300])
            return 1 if found else 0
        res = []
        cls, fn = d["function"].split(".")
        for nth in range(1, c11.UNROLL + 2):
            res += [r for r in c11.inject_and_compare(cls, fn, d["line"], nth, d["file"]) if r["operands_changed"]]
        print(("REPRODUCED " if res else "not reproduced ") + json.dumps(res[:2]))
        return 1 if res else 0
    from symx import jobs

    task = dict(spec=d["spec"], envs=[], violations=[dict(name=d["name"], env=d["env"])])
    rep = jobs.run_replay(task)
    if not rep.get("ok"):
        print("replay failed:", rep.get("error"))
        return 3
    c = rep["confirms"][0]
    print(("REPRODUCED: " if c["reproduced"] else "not reproduced: ") + str(c["text"]))
    print("signature:", json.dumps(c["sig"]))
    if c["reproduced"]:
        print(f"VIOLATION property={prop} replay={path}")
    return 1 if c["reproduced"] else 0
