"""C02 Point membership is geometric truth, with the documented boundary rule."""
from __future__ import annotations

from fractions import Fraction as F

import z3

from checks import geom
from oracles import region as R

SHAPES_QUICK = ["penta", "cw:penta", "hollow", "two", "inv:two", "inv:hollow", "framedot", "ell", "empty", "whole"]
SHAPES_THOROUGH = SHAPES_QUICK + ["you", "quad", "tri", "rhombus", "inv:framedot", "cw:you", "inv:ell", "hollow2"]


class PointInShape:
    """symbolic query point (whole plane) against a concrete catalogue shape"""

    nfree = 0
    spot_names = ["membership differs from region truth", "boundary point not answered by the boundary flag"]

    def __init__(self, shape, flag, via="contains_point"):
        self.shape, self.flag, self.via = shape, flag, via
        self.names = ["px", "py"]

    def run(self, xs):
        if getattr(self, "_S", None) is None:
            self._S = geom.make(self.shape)  # concrete shape, built once per worker
        S = self._S
        p = (xs[0], xs[1])
        if self.via == "in":
            ans = bool(p in S)
        elif self.via == "jordan_in":  # boundary membership  p in jordan
            ans = bool(p in S.jordans[0])
        else:
            ans = bool(S.contains_point(p, self.flag))
        return {"ans": ans}

    def oblige(self, tr, out):
        from symx.core import Sym

        ans = z3.BoolVal(out["ans"])
        if getattr(self, "_f", None) is None:
            px, py = [Sym.var(i, 0) for i in range(2)]
            reg = geom.region_of_name(self.shape)
            polys = R.polys_of(reg)
            if self.via == "jordan_in":
                self._f = (R.z_on_boundary(px, py, polys), R.z_off_boundary(px, py, polys, R.BAND * 2), None, polys)
            else:
                self._f = (R.z_on_boundary(px, py, polys), R.z_off_boundary(px, py, polys), R.z_in(reg, px, py), polys)
        on, off, want, polys = self._f
        if self.via == "jordan_in":
            return [("on-curve point reported", z3.And(on, z3.Not(ans)), {}), ("far point reported on curve", z3.And(off, ans), {})]
        flag = z3.BoolVal(self.flag if self.via != "in" else True)
        obs = [("membership differs from region truth", z3.And(off, want != ans), {})]
        if polys:
            obs.append(("boundary point not answered by the boundary flag", z3.And(on, ans != flag), {}))
        return obs

    def on_raise(self, exc, func, line):
        return "point query raised " + exc

    def confirm(self, name, xs, outcome, exc):
        if name.startswith("point query raised"):
            return exc is not None, f"p={tuple(map(str, xs))} -> {exc}"
        if outcome is None:
            return False, f"plain run raised {exc}"
        reg = geom.region_of_name(self.shape)
        polys = R.polys_of(reg)
        p = (xs[0], xs[1])
        d2 = R.x_dist2_boundary(p, polys) if polys else None
        truth = R.x_in(reg, p)
        ans = outcome["ans"]
        flag = self.flag if self.via != "in" else True
        txt = f"shape={self.shape} p=({xs[0]}, {xs[1]}) flag={flag} via={self.via}: library says {ans}, region truth {truth}, dist^2 to boundary {d2}"
        if self.via == "jordan_in":
            if d2 == 0:
                return ans is False, txt
            return (d2 >= (2 * R.BAND) ** 2 and ans is True), txt
        if d2 is not None and d2 == 0:
            return ans != flag, txt
        if d2 is None or d2 >= R.BAND**2:
            return ans != truth, txt
        return False, txt + " (inside the tolerance band: no assertion)"

    def signature(self, name, xs, outcome, exc):
        return {"name": name.split(" raised")[0], "shape": self.shape}


def specs(tier):
    out = []
    shapes = SHAPES_QUICK if tier == "quick" else SHAPES_THOROUGH
    for s in shapes:
        if s in ("empty", "whole"):
            out.append(dict(module="checks.c02", scenario="PointInShape", params=dict(shape=s, flag=True, via="in")))
            continue
        for flag in (True, False):
            out.append(dict(module="checks.c02", scenario="PointInShape", params=dict(shape=s, flag=flag)))
        out.append(dict(module="checks.c02", scenario="PointInShape", params=dict(shape=s, flag=True, via="in")))
    for s in ["penta", "cw:ell"] + (["you", "quad"] if tier != "quick" else []):
        out.append(dict(module="checks.c02", scenario="PointInShape", params=dict(shape=s, flag=True, via="jordan_in")))
    return out


def main(tier, seed):
    from checks.common import Runner

    r = Runner("C02", tier, seed)
    r.run_specs(specs(tier))
    return r.finish(
        explanation="Real contains_point / `in` executed under SYMX with the query point symbolic over the whole plane; "
        "the explored path conditions partition the plane; on each cell z3 decides, for all points of the cell, "
        "`off-boundary => answer == crossing-number truth` and `on-boundary => answer == boundary flag`.",
        assumptions=["polygonal catalogue shapes (<= 8 edges, all kinds, both orientations); curved boundaries and float inputs outside",
                     "points at distance < 1.5e-6 from the boundary but not on it: no assertion (documented point-on-curve tolerance 1e-6)"],
    )
