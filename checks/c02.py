"""C02 Point membership is geometric truth, with the documented boundary rule."""
from __future__ import annotations

from fractions import Fraction as F

import z3

from checks import geom
from oracles import region as R

SHAPES_QUICK = ["penta", "cw:penta", "hollow", "two", "inv:two", "inv:hollow", "framedot", "ell", "empty", "whole"]
SHAPES_THOROUGH = SHAPES_QUICK + ["you", "quad", "tri", "rhombus", "inv:framedot", "cw:you", "inv:ell", "hollow2"]


class PointInShape:
    """symbolic query point (whole plane) against a concrete catalogue shape"""

    nfree = 0
    spot_names = ["membership differs from region truth", "boundary point not answered by the boundary flag"]

    def __init__(self, shape, flag, via="contains_point", moved=None):
        self.shape, self.flag, self.via = shape, flag, via
        self.moved = [F(m) for m in moved] if moved else [F(0), F(0)]
        self.was_moved = bool(moved)
        self.names = ["px", "py"]

    def region(self):
        return geom.region_of_name(self.shape, self.moved[0], self.moved[1])

    def run(self, xs):
        if getattr(self, "_S", None) is None:
            self._S = geom.make(self.shape)  # concrete shape, built once per worker
            if self.was_moved:  # a shape that answered queries where it was built and was then moved in place is a shape like any other
                for q in ((F(1, 3), F(1, 7)), (F(40), F(-17))):
                    q in self._S
                    self._S.contains_point(q, False)
                self._S.move(self.moved[0], self.moved[1])
        S = self._S
        p = (xs[0], xs[1])
        if self.via == "in":
            ans = bool(p in S)
        elif self.via == "jordan_in":  # boundary membership  p in jordan
            ans = bool(p in S.jordans[0])
        else:
            ans = bool(S.contains_point(p, self.flag))
        return {"ans": ans}

    def oblige(self, tr, out):
        from symx.core import Sym

        ans = z3.BoolVal(out["ans"])
        if getattr(self, "_f", None) is None:
            px, py = [Sym.var(i, 0) for i in range(2)]
            reg = self.region()
            polys = R.polys_of(reg)
            if self.via == "jordan_in":
                self._f = (R.z_on_boundary(px, py, polys), R.z_off_boundary(px, py, polys, R.BAND * 2), None, polys)
            else:
                self._f = (R.z_on_boundary(px, py, polys), R.z_off_boundary(px, py, polys), R.z_in(reg, px, py), polys)
        on, off, want, polys = self._f
        if self.via == "jordan_in":
            return [("on-curve point reported", z3.And(on, z3.Not(ans)), {}), ("far point reported on curve", z3.And(off, ans), {})]
        flag = z3.BoolVal(self.flag if self.via != "in" else True)
        obs = [("membership differs from region truth", z3.And(off, want != ans), {})]
        if polys:
            obs.append(("boundary point not answered by the boundary flag", z3.And(on, ans != flag), {}))
        return obs

    def on_raise(self, exc, func, line):
        return "point query raised " + exc

    def confirm(self, name, xs, outcome, exc):
        if name.startswith("point query raised"):
            return exc is not None, f"p={tuple(map(str, xs))} -> {exc}"
        if outcome is None:
            return False, f"plain run raised {exc}"
        reg = self.region()
        polys = R.polys_of(reg)
        p = (xs[0], xs[1])
        d2 = R.x_dist2_boundary(p, polys) if polys else None
        truth = R.x_in(reg, p)
        ans = outcome["ans"]
        flag = self.flag if self.via != "in" else True
        txt = f"shape={self.shape}{' queried, then moved in place by (%s, %s)' % tuple(self.moved) if self.was_moved else ''} p=({xs[0]}, {xs[1]}) flag={flag} via={self.via}: library says {ans}, region truth {truth}, dist^2 to boundary {d2}"
        if self.via == "jordan_in":
            if d2 == 0:
                return ans is False, txt
            return (d2 >= (2 * R.BAND) ** 2 and ans is True), txt
        if d2 is not None and d2 == 0:
            return ans != flag, txt
        if d2 is None or d2 >= R.BAND**2:
            return ans != truth, txt
        return False, txt + " (inside the tolerance band: no assertion)"

    def signature(self, name, xs, outcome, exc):
        return {"name": name.split(" raised")[0], "shape": self.shape}


def specs(tier):
    out = []
    shapes = SHAPES_QUICK if tier == "quick" else SHAPES_THOROUGH
    for s in shapes:
        if s in ("empty", "whole"):
            out.append(dict(module="checks.c02", scenario="PointInShape", params=dict(shape=s, flag=True, via="in")))
            continue
        for flag in (True, False):
            out.append(dict(module="checks.c02", scenario="PointInShape", params=dict(shape=s, flag=flag)))
        out.append(dict(module="checks.c02", scenario="PointInShape", params=dict(shape=s, flag=True, via="in")))
    for s in ["penta", "cw:ell"] + (["you", "quad"] if tier != "quick" else []):
        out.append(dict(module="checks.c02", scenario="PointInShape", params=dict(shape=s, flag=True, via="jordan_in")))
    for s in ["hollow", "inv:two"] + (["framedot", "cw:penta", "ell"] if tier != "quick" else []):
        for flag in (True, False):
            out.append(dict(module="checks.c02", scenario="PointInShape", params=dict(shape=s, flag=flag, moved=["5", "3"])))
    out.append(dict(module="checks.c02", scenario="PointInShape", params=dict(shape="penta", flag=True, via="jordan_in", moved=["-7", "5/2"])))
    for s in ["circle8", "lens"] + (["circle16", "dcup"] if tier != "quick" else []):
        out.append(dict(module="checks.c02", scenario="PointInCurved", params=dict(shape=s), time_budget=45 if tier == "quick" else 400))
    return out


def main(tier, seed):
    from checks.common import Runner

    r = Runner("C02", tier, seed)
    r.run_specs(specs(tier))
    return r.finish(
        explanation="Real contains_point / `in` executed under SYMX with the query point symbolic over the whole plane; "
        "the explored path conditions partition the plane; on each cell z3 decides, for all points of the cell, "
        "`off-boundary => answer == crossing-number truth` and `on-boundary => answer == boundary flag`.",
        assumptions=["polygonal catalogue shapes (<= 8 edges, all kinds, both orientations); curved boundaries and float inputs outside",
                     "points at distance < 1.5e-6 from the boundary but not on it: no assertion (documented point-on-curve tolerance 1e-6)"],
    )


# ----------------------------------------------------------------------------------------------
# curved boundaries


def _circle(n, r=2):
    from shapepy import Primitive

    return Primitive.circle(F(r), (0, 0), n)


CURVED_SHAPES = {
    "circle4": lambda: _circle(4),
    "circle8": lambda: _circle(8),
    "circle16": lambda: _circle(16, 3),
    "lens": lambda: __import__("shapepy").SimpleShape(__import__("shapepy").JordanCurve.from_ctrlpoints([[(0, 0), (2, -2), (4, 0)], [(4, 0), (2, 1), (0, 0)]])),
    "dcup": lambda: __import__("shapepy").SimpleShape(__import__("shapepy").JordanCurve.from_ctrlpoints([[(0, 0), (4, 0)], [(4, 0), (5, 3), (-1, 3), (0, 0)]])),
}


def curve_truth(segs, p):
    """exact membership of a concrete point in the region bounded by a closed chain of Bezier segments (concrete
    control points): parity of the crossings of a ray from p with the chain, each counted by z3 over the reals.
    A ray that touches the curve tangentially (e.g. the horizontal ray through the top point of a circle) would be
    miscounted, so three ray directions (1,0), (7,1), (11,-3) vote (the plane is sheared, which keeps membership)."""
    votes = [_curve_parity(segs, p, k) for k in (F(0), F(1, 7), F(-3, 11))]
    return sum(votes) >= 2


def _curve_parity(segs, p, k):
    from oracles import bezier as BZ

    px, py = F(p[0]), F(p[1]) - k * F(p[0])
    total = 0
    t1, t2, t3 = z3.Real("t1"), z3.Real("t2"), z3.Real("t3")

    def q(v):
        return z3.RatVal(F(v).numerator, F(v).denominator)

    for s in segs:
        X = [q(c[0]) for c in s]
        Y = [q(F(c[1]) - k * F(c[0])) for c in s]

        def hit(t):
            return z3.And(t >= 0, t < 1, BZ.bernstein(Y, t) == q(py), BZ.bernstein(X, t) > q(px))

        kk = 0
        ts = [t1, t2, t3]
        for cnt in (3, 2, 1):
            sol = z3.Solver()
            sol.set("timeout", 20000)
            sol.add([hit(t) for t in ts[:cnt]])
            for a, b in zip(ts[:cnt], ts[1:cnt]):
                sol.add(a < b)
            if sol.check() == z3.sat:
                kk = cnt
                break
        total += kk
    return total % 2 == 1


def curve_dist_small(segs, p, tol):
    """is p within tol of the curve? (z3, exists t)"""
    from oracles import bezier as BZ

    px, py = F(p[0]), F(p[1])
    t = z3.Real("t")

    def q(v):
        return z3.RatVal(F(v).numerator, F(v).denominator)

    for s in segs:
        X = [q(c[0]) for c in s]
        Y = [q(c[1]) for c in s]
        sol = z3.Solver()
        sol.set("timeout", 20000)
        dx, dy = BZ.bernstein(X, t) - q(px), BZ.bernstein(Y, t) - q(py)
        sol.add(t >= 0, t <= 1, dx * dx + dy * dy <= q(F(tol) ** 2))
        if sol.check() != z3.unsat:
            return True
    return False


class PointInCurved:
    """symbolic query point against a concrete shape with curved boundary pieces.  Tractable cells are those in which
    the point is outside the control box of every curved piece (the library answers from the chords it samples; by the
    convex-hull property chords and arcs agree there); cells inside a control box run the Newton projection and are
    spot-checked at their witness against the exact curved region (z3 over the reals at the concrete point)."""

    nfree = 0
    max_degree = 2
    replay_timeout = 20
    spot_names = ["membership differs from the curved region truth"]

    def __init__(self, shape, flag=True):
        self.shape, self.flag = shape, flag
        self.names = ["px", "py"]

    def domain(self, xs):
        return [xs[0] >= -20, xs[0] <= 20, xs[1] >= -20, xs[1] <= 20]

    def build(self):
        if getattr(self, "_S", None) is None:
            self._S = CURVED_SHAPES[self.shape]()
            J = self._S.jordans[0]
            self._segs = [[(F(p[0]), F(p[1])) if not isinstance(p[0], float) else (F(p[0]), F(p[1])) for p in s.ctrlpoints] for s in J.segments]
            # the polygon of the chords the library samples (closed_linspace(npts) on every segment)
            from oracles import bezier as BZ

            ch = []
            for s in self._segs:
                n = len(s)
                for i in range(n - 1):
                    t = F(i, n - 1)
                    ch.append((BZ.bernstein([c[0] for c in s], t), BZ.bernstein([c[1] for c in s], t)))
            self._chords = ch
        return self._S

    def run(self, xs):
        S = self.build()
        return {"ans": bool(S.contains_point((xs[0], xs[1]), self.flag))}

    def oblige(self, tr, out):
        from symx.core import Sym

        self.build()
        px, py = Sym.var(0, 0), Sym.var(1, 0)
        ccw = R.x_signed_area2(self._chords) > 0
        want = R.z_in(("poly", self._chords, ccw), px, py)
        # outside the (grown) control box of every curved piece and off the straight ones
        clear = []
        for s in self._segs:
            if len(s) == 2:
                clear.append(R.z_seg_off(px, py, s[0], s[1], R.BAND))
            else:
                lox, hix = min(c[0] for c in s), max(c[0] for c in s)
                loy, hiy = min(c[1] for c in s), max(c[1] for c in s)
                d = F(2, 10**6)
                clear.append(R.zor(px <= lox - d, px >= hix + d, py <= loy - d, py >= hiy + d))
        return [("membership differs from the sampled-chord region outside the control boxes", z3.And(z3.And(clear), want != z3.BoolVal(out["ans"])), {})]

    def on_raise(self, exc, func, line):
        return "point query raised " + exc

    def confirm(self, name, xs, outcome, exc):
        if name.startswith("point query raised"):
            return exc is not None, str(exc)
        if outcome is None:
            return False, str(exc)
        self.build()
        p = (xs[0], xs[1])
        if curve_dist_small(self._segs, p, F(2, 10**6)):
            return False, "within the tolerance of the curve: no assertion"
        truth = curve_truth(self._segs, p)
        return outcome["ans"] != truth, f"{self.shape} p=({xs[0]}, {xs[1]}): library says {outcome['ans']}, the region bounded by the curve says {truth}"

    def signature(self, name, xs, outcome, exc):
        self.build()
        if exc is not None:
            return {"name": "curved membership", "exc": exc["exc"], "boundary_has_a_curved_piece": any(len(s) >= 3 for s in self._segs)}
        p = (xs[0], xs[1])
        ccw = R.x_signed_area2(self._chords) > 0
        chord = R.x_in(("poly", self._chords, ccw), p)
        truth = curve_truth(self._segs, p)
        return {"name": "curved membership", "point_between_sampled_chord_and_arc": bool(chord != truth), "library_agrees_with_chord_polygon": bool(outcome is not None and outcome["ans"] == chord)}

    def extra_envs(self):
        """probe points between a sampled chord and its arc (the recorded finding KF-C02-1 keeps a witness there) and
        clearly inside / outside"""
        self.build()
        from oracles import bezier as BZ

        out = []
        for s in self._segs[:3]:
            if len(s) == 2:
                continue
            n = len(s)
            t = F(1, 2 * (n - 1))  # middle of the first sampled chord
            c = (BZ.bernstein([q[0] for q in s], t), BZ.bernstein([q[1] for q in s], t))
            a = s[0]
            b = (BZ.bernstein([q[0] for q in s], F(1, n - 1)), BZ.bernstein([q[1] for q in s], F(1, n - 1)))
            m = ((a[0] + b[0]) / 2, (a[1] + b[1]) / 2)
            for lam in (F(1, 2), F(9, 10)):
                out.append([(m[0] + lam * (c[0] - m[0])).limit_denominator(10**6), (m[1] + lam * (c[1] - m[1])).limit_denominator(10**6)])
        return out
