"""C11 A call that raises or is interrupted leaves its operands intact.

Engine: AST -> SMT crash-point model (DESIGN.md 2.4).  The current sources of shape.py and
jordancurve.py are parsed; for every function that is not itself part of the in-place API, each
call of a non-region-preserving in-place mutator (invert / move / scale / rotate) on an object
reachable from the operands becomes a state update, every other call (and `in` / `==`) a step
that may raise, control flow (if / for / break / return / try-finally) is translated
structurally with loops unrolled to 3 iterations.  The crash location is a symbolic integer:
z3 is asked for a location at which the function exits exceptionally while some operand has
been mutated an odd number of times.  Models are replayed on the real code by raising an
exception from a line-trace hook at the reported line and comparing operand snapshots.
Part B: the in-place transformations must validate their arguments before the first mutation.
"""
from __future__ import annotations

import ast
import json
import os
import sys
import time
from fractions import Fraction as F

import z3

SRC = os.path.join(os.environ.get("SHAPEPY_SRC", "/repo/src"), "shapepy")
MUT = {"invert", "move", "scale", "rotate"}  # not region preserving
INPLACE_API = {"move", "scale", "rotate", "invert", "split", "clean", "__iadd__", "__isub__", "__imul__", "__itruediv__", "__split_segment", "segments", "ctrlpoints", "subshapes",
               "__set_jordancurve", "__init__", "__new__"}
UNROLL = 3


class InjectedFault(Exception):
    pass


# ------------------------------------------------------------------ part A: model


def functions(path):
    tree = ast.parse(open(path).read())
    out = []
    for node in tree.body:
        if isinstance(node, ast.ClassDef):
            for f in node.body:
                if isinstance(f, ast.FunctionDef):
                    out.append((node.name, f))
        elif isinstance(node, ast.FunctionDef):
            out.append((None, node))
    return out


def fresh_expr(e):
    """does this expression create a new object (copy / constructor / operator result)?"""
    if isinstance(e, ast.Call):
        f = e.func
        if isinstance(f, ast.Name) and f.id in ("copy", "deepcopy"):
            return True
        if isinstance(f, ast.Attribute) and f.attr in ("__copy__", "__deepcopy__", "__invert__", "__abs__"):
            return True
        if isinstance(f, ast.Name) and f.id[:1].isupper():
            return True
        if isinstance(f, ast.Attribute) and isinstance(f.value, ast.Attribute) and f.value.attr == "__class__":
            return True
    if isinstance(e, ast.UnaryOp) and isinstance(e.op, ast.Invert):
        return True
    return False


class Model:
    """bounded symbolic execution of one function body into z3 terms"""

    def __init__(self, cls, fn):
        self.cls, self.fn = cls, fn
        self.step = 0
        self.crash = z3.Int("crash")
        self.n = z3.Int("n")  # number of loop iterations available
        self.labels = {}
        self.choices = []
        self.objs = {}  # object key -> z3 Bool parity at crash
        self.fresh_names = set()

    def fresh_bool(self, name):
        v = z3.Bool(f"{name}_{len(self.choices)}")
        self.choices.append(v)
        return v

    def new_state(self):
        return dict(alive=z3.BoolVal(True), crashed=z3.BoolVal(False), flags={}, atcrash={}, broke=z3.BoolVal(False), locals={})

    def fork(self, st):
        return {k: (dict(v) if isinstance(v, dict) else v) for k, v in st.items()}

    def key_of(self, recv, env):
        """object key of a receiver expression if it is operand-derived, else None"""
        if isinstance(recv, ast.Name):
            if recv.id in self.fresh_names:
                return None
            return env.get(recv.id, recv.id if recv.id in self.params else None)
        if isinstance(recv, ast.Attribute):
            base = self.key_of(recv.value, env)
            if base is None:
                return None
            return base  # a part of an operand is the operand
        if isinstance(recv, ast.Subscript):
            return self.key_of(recv.value, env)
        return None

    def may_raise(self, st, label, lineno):
        k = self.step
        self.step += 1
        self.labels[k] = (label, lineno)
        raises = z3.And(st["alive"], self.crash == k)
        st["crashed"] = z3.Or(st["crashed"], raises)
        for o in list(st["flags"]):
            st["atcrash"][o] = z3.If(raises, st["flags"][o], st["atcrash"].get(o, z3.BoolVal(False)))
        st["alive"] = z3.And(st["alive"], z3.Not(raises))

    def toggle(self, st, key):
        cur = st["flags"].get(key, z3.BoolVal(False))
        st["flags"][key] = z3.If(st["alive"], z3.Not(cur), cur)
        st["atcrash"].setdefault(key, z3.BoolVal(False))

    def expr(self, e, st, env):
        """every Call / in / == inside e, innermost first, is a may-raise step; mutators update the state"""
        for node in _postorder(e):
            if isinstance(node, ast.Call):
                f = node.func
                if isinstance(f, ast.Attribute) and f.attr in MUT:
                    key = self.key_of(f.value, env)
                    self.may_raise(st, f"{ast.unparse(f)}()", node.lineno)
                    if key is not None:
                        self.toggle(st, key)
                    continue
                if isinstance(f, ast.Name) and f.id in ("isinstance", "len", "range", "enumerate", "zip", "tuple", "list", "id", "abs", "map", "sorted", "max", "min", "sum"):
                    continue
                self.may_raise(st, f"call {ast.unparse(f)}", node.lineno)
            elif isinstance(node, ast.Compare) and any(isinstance(o, (ast.In, ast.NotIn, ast.Eq, ast.NotEq, ast.Lt, ast.Gt, ast.LtE, ast.GtE)) for o in node.ops):
                if any(isinstance(o, (ast.In, ast.NotIn)) for o in node.ops) or not all(isinstance(c, ast.Constant) for c in node.comparators):
                    self.may_raise(st, f"compare {ast.unparse(node)[:40]}", node.lineno)

    def block(self, stmts, st, env):
        for s in stmts:
            self.stmt(s, st, env)

    def stmt(self, s, st, env):
        if isinstance(s, (ast.Expr, ast.Assign, ast.AugAssign, ast.AnnAssign)):
            if getattr(s, "value", None) is not None:
                self.expr(s.value, st, env)
            if isinstance(s, ast.Assign) and len(s.targets) == 1 and isinstance(s.targets[0], ast.Name):
                t = s.targets[0].id
                if isinstance(s.value, ast.Constant) and isinstance(s.value.value, bool):
                    st["locals"][t] = z3.BoolVal(s.value.value)
                elif fresh_expr(s.value):
                    self.fresh_names.add(t)
                else:
                    k = self.key_of(s.value, env) if isinstance(s.value, (ast.Name, ast.Attribute, ast.Subscript)) else None
                    if k is not None:
                        env[t] = k
        elif isinstance(s, ast.Assert):
            self.expr(s.test, st, env)
            self.may_raise(st, "assert", s.lineno)
        elif isinstance(s, ast.Raise):
            self.may_raise(st, "raise", s.lineno)
            st["alive"] = z3.BoolVal(False)
        elif isinstance(s, ast.Return):
            if s.value is not None:
                self.expr(s.value, st, env)
            st["alive"] = z3.BoolVal(False)
        elif isinstance(s, ast.If):
            self.expr(s.test, st, env)
            if isinstance(s.test, ast.Name) and s.test.id in st["locals"]:
                c = st["locals"][s.test.id]
            else:
                c = self.fresh_bool("cond")
            a0 = st["alive"]
            st_t = self.fork(st)
            st_t["alive"] = z3.And(a0, c)
            self.block(s.body, st_t, dict(env))
            st_f = self.fork(st)
            st_f["alive"] = z3.And(a0, z3.Not(c))
            self.block(s.orelse, st_f, dict(env))
            self.merge(st, st_t, st_f, c)
        elif isinstance(s, ast.For):
            self.expr(s.iter, st, env)
            itkey = self.key_of(s.iter, env) if isinstance(s.iter, (ast.Name, ast.Attribute)) else None
            var = s.target.id if isinstance(s.target, ast.Name) else None
            broke0 = st["broke"]
            st["broke"] = z3.BoolVal(False)
            for i in range(UNROLL):
                a0 = st["alive"]
                inloop = z3.And(a0, self.n > i, z3.Not(st["broke"]))
                st_b = self.fork(st)
                st_b["alive"] = inloop
                env2 = dict(env)
                if var and itkey is not None:
                    env2[var] = f"{itkey}[{i}]"
                self.block(s.body, st_b, env2)
                st_s = self.fork(st)
                st_s["alive"] = z3.And(a0, z3.Not(inloop))
                self.merge(st, st_b, st_s, inloop)
            # after the loop: execution continues if it was alive at loop exit or left by break
            st["alive"] = z3.Or(st["alive"], st["broke"])
            st["broke"] = broke0
        elif isinstance(s, ast.While):
            self.expr(s.test, st, env)
            for i in range(UNROLL):
                c = self.fresh_bool("while")
                a0 = st["alive"]
                st_b = self.fork(st)
                st_b["alive"] = z3.And(a0, c)
                self.block(s.body, st_b, dict(env))
                st_s = self.fork(st)
                st_s["alive"] = z3.And(a0, z3.Not(c))
                self.merge(st, st_b, st_s, c)
        elif isinstance(s, ast.Break):
            st["broke"] = z3.Or(st["broke"], st["alive"])
            st["alive"] = z3.BoolVal(False)
        elif isinstance(s, ast.Continue):
            st["alive"] = z3.BoolVal(False)
        elif isinstance(s, ast.Try):
            # body; a crash inside the body runs the finally block (and the handlers) before leaving
            pre_flags = dict(st["flags"])
            crashed0 = st["crashed"]
            self.block(s.body, st, env)
            if s.finalbody:
                crashed_in_body = z3.And(st["crashed"], z3.Not(crashed0))
                # the finally block runs on the crash path with the flags as they were at the crash
                fin = self.fork(st)
                fin["alive"] = crashed_in_body
                fin["flags"] = {o: st["atcrash"].get(o, z3.BoolVal(False)) for o in st["flags"]}
                sub = Model.__new__(Model)  # finally block on the exceptional path: its own steps cannot be the crash (single fault)
                self._finally_exceptional(s.finalbody, fin, env)
                for o in st["flags"]:
                    st["atcrash"][o] = z3.If(crashed_in_body, fin["flags"].get(o, z3.BoolVal(False)), st["atcrash"].get(o, z3.BoolVal(False)))
                self.block(s.finalbody, st, env)
        elif isinstance(s, (ast.Pass, ast.Import, ast.ImportFrom, ast.Global, ast.Nonlocal, ast.FunctionDef, ast.Delete)):
            pass
        elif isinstance(s, ast.With):
            for it in s.items:
                self.expr(it.context_expr, st, env)
            self.block(s.body, st, env)
        else:
            raise NotImplementedError(type(s).__name__)

    def _finally_exceptional(self, stmts, st, env):
        """run the finally block on the exceptional path: mutator calls toggle, nothing else raises"""
        for s in stmts:
            for node in ast.walk(s):
                if isinstance(node, ast.Call) and isinstance(node.func, ast.Attribute) and node.func.attr in MUT:
                    key = self.key_of(node.func.value, env)
                    if key is not None:
                        cur = st["flags"].get(key, z3.BoolVal(False))
                        st["flags"][key] = z3.If(st["alive"], z3.Not(cur), cur)

    def merge(self, st, a, b, c):
        st["crashed"] = z3.Or(a["crashed"], b["crashed"])
        st["broke"] = z3.Or(a["broke"], b["broke"])
        st["alive"] = z3.Or(a["alive"], b["alive"])
        keys = set(a["flags"]) | set(b["flags"])
        for o in keys:
            fa, fb = a["flags"].get(o, z3.BoolVal(False)), b["flags"].get(o, z3.BoolVal(False))
            st["flags"][o] = z3.If(c, fa, fb)
            ca, cb = a["atcrash"].get(o, z3.BoolVal(False)), b["atcrash"].get(o, z3.BoolVal(False))
            st["atcrash"][o] = z3.If(a["crashed"], ca, cb)
        lk = set(a["locals"]) | set(b["locals"])
        st["locals"] = {k: z3.If(c, a["locals"].get(k, z3.BoolVal(False)), b["locals"].get(k, z3.BoolVal(False))) for k in lk}

    def solve(self):
        self.params = [a.arg for a in self.fn.args.args] + ([self.fn.args.vararg.arg] if self.fn.args.vararg else [])
        st = self.new_state()
        env = {p: p for p in self.params}
        self.block(self.fn.body, st, env)
        s = z3.Solver()
        s.set("timeout", 20000)
        s.add(self.n >= 0, self.n <= UNROLL, self.crash >= 0, self.crash < max(self.step, 1))
        bad = [v for v in st["atcrash"].values()]
        # also: normal exit with a flag left toggled
        normal_bad = [z3.And(z3.Not(st["crashed"]), f) for f in st["flags"].values()]
        if not bad and not normal_bad:
            return "no-mutator", None, 0
        s.add(z3.Or([z3.And(st["crashed"], b) for b in bad] + normal_bad))
        t0 = time.time()
        r = s.check()
        dt = time.time() - t0
        if r == z3.sat:
            m = s.model()
            k = m.eval(self.crash, model_completion=True).as_long()
            left = [o for o, v in st["atcrash"].items() if z3.is_true(m.eval(z3.And(st["crashed"], v), model_completion=True))]
            return "sat", dict(step=k, label=self.labels.get(k, ("?", 0))[0], line=self.labels.get(k, ("?", 0))[1], n=m.eval(self.n, model_completion=True).as_long(), left_mutated=left), dt
        return str(r), None, dt


def _postorder(e):
    out = []

    def rec(n):
        for c in ast.iter_child_nodes(n):
            rec(c)
        out.append(n)

    rec(e)
    return out


def has_operand_mutator(fn):
    for node in ast.walk(fn):
        if isinstance(node, ast.Call) and isinstance(node.func, ast.Attribute) and node.func.attr in MUT:
            return True
    return False


# ---------------------------------------------------------------- replay by fault injection


def snapshot(objs):
    from shapepy import EmptyShape, JordanCurve, WholeShape

    out = []
    for o in objs:
        if isinstance(o, (EmptyShape, WholeShape)):
            out.append(type(o).__name__)
        elif isinstance(o, JordanCurve):
            out.append([[tuple(p) for p in s.ctrlpoints] for s in o.segments])
        elif hasattr(o, "jordans"):
            out.append([[[tuple(p) for p in s.ctrlpoints] for s in j.segments] for j in o.jordans])
        else:
            out.append(repr(o))
    return out


def region_snapshot(objs):
    """orientation-aware vertex sets: a split-in-place (more vertices on the same edges) is not a change of region;
    compare signed area and the ordered vertex list after dropping collinear vertices"""
    from shapepy import EmptyShape, WholeShape

    out = []
    for o in objs:
        if isinstance(o, (EmptyShape, WholeShape)) or not hasattr(o, "jordans"):
            out.append(type(o).__name__)
            continue
        curves = []
        for j in o.jordans:
            vs = [tuple(s.ctrlpoints[0]) for s in j.segments]
            n = len(vs)
            keep = []
            for i in range(n):
                a, b, c = vs[i - 1], vs[i], vs[(i + 1) % n]
                cr = (b[0] - a[0]) * (c[1] - b[1]) - (b[1] - a[1]) * (c[0] - b[0])
                if cr != 0:
                    keep.append(b)
            k = keep.index(min(keep)) if keep else 0
            curves.append(tuple(keep[k:] + keep[:k]))
        out.append(sorted(curves))
    return out


def battery():
    """operations on catalogue shapes that reach the modelled functions: (label, builder -> (operands, thunk))"""
    from checks import geom

    ops = []

    def add(label, names, fn):
        ops.append((label, names, fn))

    add("connected in simple", ("big", "hollow2"), lambda a, b: b in a)
    add("simple | connected", ("big", "hollow2"), lambda a, b: a | b)
    add("simple & connected", ("inv:unit", "hollow"), lambda a, b: a & b)
    add("connected - simple", ("hollow", "unit"), lambda a, b: a - b)
    add("simple in connected", ("hollow", "far"), lambda a, b: b in a)
    add("disjoint in simple", ("big", "two"), lambda a, b: b in a)
    add("connected == connected", ("hollow", "hollow2"), lambda a, b: a == b)
    add("disjoint | simple", ("two", "square"), lambda a, b: a | b)
    add("connected ^ simple", ("hollow2", "square"), lambda a, b: a ^ b)
    add("framedot in big", ("inv:unit", "framedot"), lambda a, b: b in a)
    return [(l, n, f, geom) for l, n, f in ops]


def inject_and_compare(cls, fname, line, nth, filename):
    """arm a line-trace fault at (function, line), n-th visit; run the battery; report operands changed"""
    import shapepy  # noqa

    results = []
    for label, names, thunk, geom in battery():
        a, b = geom.make(names[0]), geom.make(names[1])
        before = region_snapshot([a, b])
        count = [0]
        fired = [False]

        def tracer(frame, event, arg):
            if frame.f_code.co_name != fname or not frame.f_code.co_filename.endswith(filename):
                return None

            def local(frame, event, arg):
                if event == "line" and frame.f_lineno == line and not fired[0]:
                    count[0] += 1
                    if count[0] == nth:
                        fired[0] = True
                        raise InjectedFault(f"injected at {filename}:{line} visit {nth}")
                return local

            return local

        sys.settrace(tracer)
        try:
            try:
                thunk(a, b)
                raised = None
            except InjectedFault as e:
                raised = "InjectedFault"
            except Exception as e:  # the library's own reaction to the fault
                raised = type(e).__name__
        finally:
            sys.settrace(None)
        after = region_snapshot([a, b])
        if fired[0]:
            results.append(dict(op=label, operands=list(names), fired=True, raised=raised, operands_changed=before != after))
    return results


# ---------------------------------------------------------------- part B: validate before mutate

INVALID_ARGS = {
    "move": [((1, None),), (1, None), ("a", 2), ((1,),), (None,), (object(),), ((1, 2, 3),), (1, "b")],
    "scale": [(2, None), (None, 2), (2, "x"), ("x", 2), (2,), (object(), 1)],
    "rotate": [(None,), ("a",), (object(),), ((1, 2),), (None, True), ("90", True)],
}


def model_transform(cls, fn):
    """z3 model of one in-place transformation: statement i mutates / may raise on unvalidated arguments.
    returns (verdict, info)"""
    params = [a.arg for a in fn.args.args if a.arg != "self"] + ([fn.args.vararg.arg] if fn.args.vararg else [])
    steps = []  # (lineno, mutates, may_raise_unvalidated: set of params, validates: set of params)

    def names_in(e):
        return {n.id for n in ast.walk(e) if isinstance(n, ast.Name)}

    def walk(stmts, in_loop=False):
        for s in stmts:
            if isinstance(s, (ast.For, ast.While)):
                walk(s.body, True)
                continue
            if isinstance(s, ast.If):
                walk(s.body, in_loop)
                walk(s.orelse, in_loop)
                continue
            if isinstance(s, ast.Return):
                continue
            calls = [n for n in ast.walk(s) if isinstance(n, ast.Call)]
            aug = isinstance(s, ast.AugAssign)
            mut = False
            uses, validates = set(), set()
            for c in calls:
                f = c.func
                argn = set()
                for a in c.args:
                    argn |= names_in(a)
                argn &= set(params)
                if isinstance(f, ast.Attribute) and f.attr in MUT | {"__imul__"}:
                    mut = True
                    uses |= argn
                elif isinstance(f, ast.Name) and f.id in ("float", "Point2D", "int"):
                    validates |= argn
                else:
                    uses |= argn
            if aug:
                uses |= names_in(s.value) & set(params) | ({s.target.id} & set(params) if isinstance(s.target, ast.Name) else set())
            if isinstance(s, ast.Assign) and len(s.targets) == 1 and isinstance(s.targets[0], ast.Name) and s.targets[0].id in params and validates:
                pass
            steps.append((s.lineno, mut, uses, validates, in_loop))

    walk(fn.body)
    # z3: choose an argument p that is invalid; find steps i <= j with mutate(i) and raise-on-p(j) and p not validated before i
    s = z3.Solver()
    P = z3.Int("p")
    I, J = z3.Int("i"), z3.Int("j")
    s.add(P >= 0, P < max(len(params), 1), I >= 0, J >= 0, I < len(steps), J < len(steps))
    conds = []
    for pi, p in enumerate(params):
        validated_at = None
        for k, (ln, mut, uses, val_, loop) in enumerate(steps):
            if p in val_:
                validated_at = k
                break
        for i, (ln_i, mut_i, uses_i, val_i, loop_i) in enumerate(steps):
            if not mut_i:
                continue
            for j, (ln_j, mut_j, uses_j, val_j, loop_j) in enumerate(steps):
                later = j > i or (j == i and loop_i)  # the same mutating statement in a loop: next iteration
                if later and p in uses_j and (validated_at is None or validated_at > i):
                    conds.append(z3.And(P == pi, I == i, J == j))
    if not conds:
        return "unsat", dict(params=params, steps=len(steps))
    s.add(z3.Or(conds))
    r = s.check()
    if r == z3.sat:
        m = s.model()
        return "sat", dict(param=params[m[P].as_long()], mutate_line=steps[m[I].as_long()][0], raise_line=steps[m[J].as_long()][0], params=params)
    return str(r), None


def try_invalid(kind):
    """replay: call the transformation with invalid arguments on shapes and curves; report partial mutation"""
    from checks import geom

    found = []
    for name in ("square", "hollow", "two"):
        for args in INVALID_ARGS[kind]:
            for level in ("shape", "curve"):
                S = geom.make(name)
                target = S if level == "shape" else S.jordans[0]
                before = snapshot([S])
                try:
                    getattr(target, kind)(*args)
                    raised = None
                except Exception as e:
                    raised = type(e).__name__
                after = snapshot([S])
                if raised is not None and before != after:
                    found.append(dict(shape=name, level=level, method=kind, args=repr(args), raised=raised))
    return found


# ---------------------------------------------------------------- main


def main(tier, seed):
    from checks.common import EVID, REPLAYS, load_known, sig_matches

    t0 = time.time()
    os.makedirs(EVID, exist_ok=True)
    os.makedirs(REPLAYS, exist_ok=True)
    import glob

    for old in glob.glob(os.path.join(REPLAYS, f"C11_{tier}_*.json")):
        os.remove(old)
    known = [k for k in load_known().get("findings", []) if k["property"] == "C11"]
    encoded, queries, tsolve = [], 0, 0.0
    candidates, violations, known_hits, unreproduced = [], [], {}, []
    samples = []
    for fname in ("shape.py", "jordancurve.py"):
        for cls, fn in functions(os.path.join(SRC, fname)):
            if fn.name in INPLACE_API or not has_operand_mutator(fn):
                continue
            m = Model(cls, fn)
            try:
                verdict, info, dt = m.solve()
            except NotImplementedError as e:
                encoded.append(dict(function=f"{cls}.{fn.name}", file=fname, verdict="untranslatable: " + str(e)))
                continue
            queries += 1
            tsolve += dt
            encoded.append(dict(function=f"{cls}.{fn.name}", file=fname, steps=m.step, verdict=verdict, model=info))
            if verdict == "sat":
                candidates.append((fname, cls, fn.name, info))
    # replay part A candidates by fault injection
    for fname, cls, fnname, info in candidates:
        hit = []
        for nth in range(1, UNROLL + 2):
            res = inject_and_compare(cls, fnname, info["line"], nth, fname)
            hit += [dict(r, nth=nth) for r in res if r["operands_changed"]]
        rec = dict(kind="temporary mutation not undone", function=f"{cls}.{fnname}", file=fname, line=info["line"], model=info, reproduced=bool(hit), replays=hit[:4])
        sig = {"name": "temporary mutation not undone", "function": f"{cls}.{fnname}"}
        if hit:
            samples.append(rec)
            k = next((k for k in known if sig_matches(k["signature"], sig)), None)
            if k:
                known_hits.setdefault(k["id"], []).append(rec)
            else:
                violations.append(rec)
        else:
            unreproduced.append(rec)
    # part B
    partb = []
    for fname, classes in (("shape.py", ("DefinedShape",)), ("jordancurve.py", ("JordanCurve",)), ("polygon.py", ("Point2D",))):
        for cls, fn in functions(os.path.join(SRC, fname)):
            if cls in classes and fn.name in ("move", "scale", "rotate"):
                verdict, info = model_transform(cls, fn)
                queries += 1
                partb.append(dict(function=f"{cls}.{fn.name}", verdict=verdict, model=info))
    # replay part B: invalid arguments on the public API (always run: it is the replay of the model and the validation of its 'unsat's)
    partial = []
    for kind in ("move", "scale", "rotate"):
        partial += try_invalid(kind)
    model_flags = [p for p in partb if p["verdict"] == "sat" and p["function"].split(".")[0] != "Point2D"]
    for pm in partial:
        rec = dict(kind="rejected transformation left the shape changed", **pm)
        sig = {"name": "rejected transformation left the shape changed", "method": pm["method"]}
        k = next((k for k in known if sig_matches(k["signature"], sig)), None)
        if k:
            known_hits.setdefault(k["id"], []).append(rec)
        else:
            violations.append(rec)
    exit_code = 0
    for k in known:
        if known_hits.get(k["id"]):
            print(f"KNOWN-FINDING: property=C11 {k['what']} [{k['id']}; {len(known_hits[k['id']])} replay(s)]")
    for n, v in enumerate(violations[:20]):
        path = os.path.join(REPLAYS, f"C11_{tier}_{n}.json")
        json.dump(dict(property="C11", **v), open(path, "w"), indent=1, default=str)
        print(f"VIOLATION property=C11 replay={path}")
        print("  " + json.dumps(v, default=str)[:400])
        exit_code = 1
    # a model candidate that no injected fault reproduces is reported as inconclusive, not as a violation
    for u in unreproduced:
        print(f"NOTE: model candidate not reproduced by fault injection (inconclusive): {u['function']} line {u['line']}")
    nmodel = len(encoded) + len(partb)
    ev = dict(
        property_id="C11", tier=tier, seed=seed, level="other",
        coverage=dict(
            explanation="AST->SMT crash-point model regenerated from the current shape.py / jordancurve.py: every non-in-place function that calls invert/move/scale/rotate on an "
            "operand-derived object is translated (calls and in/== comparisons may raise, loops unrolled to 3, try/finally structural) and z3 decides whether some crash "
            "location leaves an operand mutated an odd number of times; every model is replayed by raising from a line-trace hook at the reported line while a battery of "
            "operators/containment/equality calls runs on catalogue shapes, comparing region snapshots of the operands. In-place transformations: z3 model of "
            "'a mutating statement precedes a statement that can raise on an unvalidated argument', replayed with invalid argument tuples on shapes and curves.",
            functions_encoded=encoded, transformation_models=partb, obligations=nmodel, discharged=sum(1 for e in encoded if e["verdict"] in ("unsat", "no-mutator")) + sum(1 for p in partb if p["verdict"] == "unsat"),
            solver_queries=queries, solver_time_s=round(tsolve, 3), bounds=dict(loop_unroll=UNROLL, single_fault=True),
            candidates=len(candidates), reproduced=len(samples), unreproduced_candidates=len(unreproduced), invalid_argument_replays=sum(len(v) for v in INVALID_ARGS.values()) * 6,
            partial_mutations_found=len(partial), samples=samples[:4] or [dict(note="no candidate on this tree", encoded=[e["function"] for e in encoded])],
            known_finding_cells={k: len(v) for k, v in known_hits.items()},
        ),
        assumptions=["faults surface at call boundaries (line granularity in replays); bytecode-level asynchronous interruption points are outside",
                     "split()/clean() are region preserving (C15) and therefore not tracked as harmful temporary mutations",
                     "single fault per call; loops unrolled to 3 iterations"],
        wall_s=round(time.time() - t0, 2), violations=len(violations),
    )
    json.dump(ev, open(os.path.join(EVID, "C11.json"), "w"), indent=1, default=str)
    print(f"[C11 {tier}] functions_modelled={len(encoded)} candidates={len(candidates)} reproduced={len(samples)} transformation_models={[(p['function'], p['verdict']) for p in partb]} "
          f"partial_mutations={len(partial)} violations={len(violations)} wall={ev['wall_s']}s")
    return exit_code
