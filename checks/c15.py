"""C15 Splitting and cleaning a curve never change the curve."""
from __future__ import annotations

from copy import deepcopy
from fractions import Fraction as F

import z3

from checks import geom
from oracles import region as R
from shapepy import JordanCurve
from symx.core import Sym, val

EPS9 = F(1, 10**9)
TOL9 = F(1e-9)  # (the same for the 1e-9 below which two parameters of one segment give a single junction)
TOL6 = F(1e-6)  # the library compares with the float literal 1e-6: use its exact value so that the classification is uniform on a path cell


def verts(j):
    return geom.jordan_vertices(j)


def closed_by_identity(j):
    segs = j.segments
    n = len(segs)
    return all(segs[i].ctrlpoints[-1] is segs[(i + 1) % n].ctrlpoints[0] for i in range(n))


class JSplit:
    """JordanCurve.split(indexs, nodes) on a catalogue polygon with symbolic split parameters, then
    clean(): pieces retrace the edges, junctions lie on the original edge at the split parameter,
    orientation/area unchanged, no zero-length piece, split+clean restores the segmentation"""

    nfree = 0
    max_degree = 2

    spot_names = ["pieces do not retrace the original edges at the split parameters", "zero-length piece created", "area / orientation changed by split"]

    def __init__(self, poly, indexs, nodes=None, scale=1):
        """nodes=None: the split parameters are the symbolic inputs (split only; clean() with a symbolic junction
        parameter leaves the encodable fragment: pynurbs' least squares switches to float64 linear algebra).
        nodes=[...]: concrete parameters, the polygon is translated by the symbolic (tx, ty) and clean() is included."""
        self.poly, self.indexs = poly, list(indexs)
        self.scale = F(scale)  # the same drawing in another unit of length (concrete factor)
        self.nodes = None if nodes is None else [F(x) for x in nodes]
        self.names = [f"n{i}" for i in range(len(indexs))] if nodes is None else ["tx", "ty"]

    def domain(self, xs):
        cs = []
        if self.nodes is None:
            for x in xs:
                cs += [x >= 0, x <= 1]
        else:
            cs = [xs[0] >= -10**6, xs[0] <= 10**6, xs[1] >= -10**6, xs[1] <= 10**6]
        return cs

    def seed(self):
        if self.nodes is not None:
            return [F(1, 3), F(-2, 7)]
        k = len(self.indexs)
        return [F(i + 1, k + 2) for i in range(k)]

    def params(self, xs):
        return list(xs) if self.nodes is None else list(self.nodes)

    def run(self, xs):
        base = [(self.scale * F(x), self.scale * F(y)) for x, y in geom.POLY[self.poly]]
        if self.nodes is None:
            pts = geom.tr_pts(base)
        else:
            pts = geom.tr_pts(base, xs[0], xs[1])
        J = JordanCurve.from_vertices(pts)
        ret = J.split(list(self.indexs), self.params(xs))
        out = {"ret_none": ret is None, "v": [list(p) for p in verts(J)], "closed": closed_by_identity(J), "_pts": pts, "clean": self.nodes is not None}
        if self.nodes is None:
            return out
        K = deepcopy(J)
        r2 = K.clean()
        out["clean_same_obj"] = r2 is K
        out["cleaned"] = [list(p) for p in verts(K)]
        K.clean()
        out["cleaned_twice"] = [list(p) for p in verts(K)]
        out["eq_original"] = bool(J == JordanCurve.from_vertices(pts))
        return out

    def expected(self, xs, pts):
        """vertex list the statement prescribes: on every edge the nodes that are not within 1e-6 of 0 or 1 and not
        within 1e-9 of the previous junction, in increasing order (decided on shadow values: the order is fixed
        on a path because the library sorted the nodes)"""
        n = len(pts)
        out = []
        used = []
        for i in range(n):
            a, b = pts[i], pts[(i + 1) % n]
            out.append((a[0], a[1]))
            ns = [x for k, x in zip(self.indexs, xs) if k == i]
            ns = sorted(ns, key=val)
            last = None
            for x in ns:
                v = val(x)
                if v < TOL6 or 1 - v < TOL6:
                    continue
                if last is not None and v - last <= TOL9:  # a parameter the knot insertion cannot tell from the previous junction is ignored
                    continue
                last = v
                out.append((a[0] + x * (b[0] - a[0]), a[1] + x * (b[1] - a[1])))
                used.append(x)
        return out, used

    def separated(self, xs):
        """z3: the split parameters are clear of the near-degenerate regime (two parameters of one
        segment, or a parameter and an end, at a distance in (0, 2e-6) that split does not filter)"""
        if self.nodes is not None:
            return z3.BoolVal(True)
        lo, hi = F(9, 10**7), F(2, 10**6)
        cs = []
        for i, x in enumerate(xs):
            cs.append(R.zor(x <= lo, x >= hi))
            cs.append(R.zor(1 - x <= lo, 1 - x >= hi))
            for j in range(i + 1, len(xs)):
                if self.indexs[i] == self.indexs[j]:
                    y = xs[j]
                    cs.append(R.zor(x == y, x - y >= hi, y - x >= hi))
        return z3.And(cs)

    def raise_formula(self, tr):
        xs = [Sym.var(i, 0) for i in range(len(self.names))]
        return self.separated(xs)

    def oblige(self, tr, out):
        obs = self._oblige(tr, out)
        xs = [Sym.var(i, 0) for i in range(len(self.names))]
        sep = self.separated(xs)
        res = []
        for name, f, meta in obs:
            res.append((name, z3.And(sep, f), meta))
            if self.nodes is None and not z3.is_false(f):
                res.append((name + " [near-degenerate parameters]", z3.And(z3.Not(sep), f), meta))
        return res

    def _oblige(self, tr, out):
        xs = [Sym.var(i, tr.env[i]) for i in range(len(self.names))]
        pts = out["_pts"]
        exp, used = self.expected(self.params(xs), pts)
        T, Fl = z3.BoolVal(True), z3.BoolVal(False)
        obs = [("split/clean return value or identity sharing broken", z3.BoolVal(not (out["ret_none"] and out["closed"] and out.get("clean_same_obj", True))), {})]
        got = out["v"]
        # the shadow-ordered expectation is valid on the part of the cell where the used nodes keep their order and distinctness
        guard = []
        for a, b in zip(used[:-1], used[1:]):
            pass
        if len(got) != len(exp):
            obs.append(("pieces do not retrace the original edges at the split parameters", T, {"got": len(got), "expected": len(exp)}))
        else:
            bad = []
            for (gx, gy), (wx, wy) in zip(got, exp):
                bad += [R.zb(_ne(gx, wx)), R.zb(_ne(gy, wy))]
            obs.append(("pieces do not retrace the original edges at the split parameters", z3.Or(bad), {}))
        zero = []
        m = len(got)
        for i in range(m):
            a, b = got[i], got[(i + 1) % m]
            dx, dy = b[0] - a[0], b[1] - a[1]
            zero.append(R.zand(dx <= EPS9, -dx <= EPS9, dy <= EPS9, -dy <= EPS9))
        obs.append(("zero-length piece created", z3.Or(zero), {}))
        a_old, a_new = geom.signed_area2(pts), geom.signed_area2([tuple(p) for p in got])
        obs.append(("area / orientation changed by split", R.zb(_ne(a_new, a_old)), {}))
        if not out["clean"]:
            return obs
        same = len(out["cleaned"]) == len(pts) and all(_same(g, w) for g, w in zip(out["cleaned"], pts))
        obs.append(("split followed by clean does not restore the original segmentation", Fl if same else T, {"cleaned": len(out["cleaned"])}))
        idem = len(out["cleaned"]) == len(out["cleaned_twice"]) and all(_same(g, w) for g, w in zip(out["cleaned"], out["cleaned_twice"]))
        obs.append(("clean is not idempotent", Fl if idem else T, {}))
        obs.append(("split curve is not == the original", Fl if out["eq_original"] else T, {}))
        return obs

    def on_raise(self, exc, func, line):
        return "split/clean raised " + exc

    def confirm(self, name, xs, outcome, exc):
        desc = f"{self.poly}{'' if self.nodes is None else '+(%s, %s)' % (xs[0], xs[1])} split(indexs={self.indexs}, nodes={[str(x) for x in self.params(xs)]})"
        if name.startswith("split/clean raised"):
            return exc is not None, desc + f": {exc}"
        if outcome is None:
            return False, str(exc)
        name = name.replace(" [near-degenerate parameters]", "")
        pts = outcome["_pts"]
        exp, used = self.expected(self.params(xs), pts)
        got = [(val(p[0]), val(p[1])) for p in outcome["v"]]
        if name.startswith("split/clean return"):
            return not (outcome["ret_none"] and outcome["closed"] and outcome.get("clean_same_obj", True)), desc
        if name.startswith("pieces do not retrace"):
            return got != [(val(x), val(y)) for x, y in exp], desc + f": vertices {[(str(a), str(b)) for a, b in got]} expected {[(str(val(a)), str(val(b))) for a, b in exp]}"
        if name.startswith("zero-length"):
            m = len(got)
            for i in range(m):
                a, b = got[i], got[(i + 1) % m]
                if abs(b[0] - a[0]) <= EPS9 and abs(b[1] - a[1]) <= EPS9:
                    return True, desc + f": piece {a} -> {b}"
            return False, desc
        if name.startswith("area"):
            return R.x_signed_area2(got) != R.x_signed_area2(pts), desc
        if name.startswith("split followed by clean"):
            c = [(val(p[0]), val(p[1])) for p in outcome["cleaned"]]
            return c != [(val(x), val(y)) for x, y in pts], desc + f": after clean {[(str(a), str(b)) for a, b in c]}"
        if name.startswith("clean is not idempotent"):
            return [[val(a) for a in p] for p in outcome["cleaned"]] != [[val(a) for a in p] for p in outcome["cleaned_twice"]], desc
        if name.startswith("split curve is not =="):
            return not outcome["eq_original"], desc
        return False, "unknown"

    def signature(self, name, xs, outcome, exc):
        xs = self.params(xs)
        near = []
        lo, hi = F(9, 10**7), F(2, 10**6)
        for i, x in enumerate(xs):
            x = F(x)
            if lo < x < hi or lo < 1 - x < hi:
                near.append(x)
            for j in range(i + 1, len(xs)):
                if self.indexs[i] == self.indexs[j] and 0 < abs(x - F(xs[j])) < hi:
                    near.append(x)
        same_seg_equal = any(self.indexs[i] == self.indexs[j] and F(xs[i]) == F(xs[j]) for i in range(len(xs)) for j in range(i + 1, len(xs)))
        sig = {"name": name.split(" raised")[0].replace(" [near-degenerate parameters]", ""), "nodes_within_2e-6_of_each_other_or_of_an_end": bool(near), "repeated_node_on_one_segment": bool(same_seg_equal)}
        pts = [(self.scale * F(x), self.scale * F(y)) for x, y in geom.POLY[self.poly]]
        sig["fine_drawing_shortest_edge_below_2e-3"] = bool(min((pts[i][0] - pts[i - 1][0]) ** 2 + (pts[i][1] - pts[i - 1][1]) ** 2 for i in range(len(pts))) < F(4, 10**6))
        if exc:
            sig["exc"] = exc["exc"]
        return sig


CURVED = {
    "q1": [[(0, 0), (4, 0)], [(4, 0), (4, 3), (0, 3)], [(0, 3), (0, 0)]],
    "q2": [[(0, 0), (2, -1), (4, 0)], [(4, 0), (5, 2), (2, 4)], [(2, 4), (0, 0)]],
    "c1": [[(0, 0), (1, -1), (3, -1), (4, 0)], [(4, 0), (2, 3)], [(2, 3), (0, 0)]],
}


class CurvedSplitClean:
    """a closed chain with a quadratic / cubic piece (concrete control points) placed at a symbolic translation: split
    the curved piece at a concrete parameter, then clean(): the original segmentation and control points come back,
    the split curve == the original, area unchanged"""

    nfree = 0
    max_degree = 2

    def __init__(self, chain, index, nodes):
        self.chain, self.index, self.nodes = chain, index, [F(x) for x in nodes]
        self.names = ["tx", "ty"]

    def domain(self, xs):
        return [xs[0] >= -1000, xs[0] <= 1000, xs[1] >= -1000, xs[1] <= 1000]

    def seed(self):
        return [F(1, 3), F(-2, 7)]

    def ctrl(self, xs):
        return [[(F(x) + xs[0], F(y) + xs[1]) for x, y in seg] for seg in CURVED[self.chain]]

    def run(self, xs):
        from shapepy.jordancurve import IntegrateJordan

        segs = self.ctrl(xs)
        J = JordanCurve.from_ctrlpoints(segs)
        a0 = IntegrateJordan.area(J)
        J.split([self.index] * len(self.nodes), list(self.nodes))
        out = {"nseg_split": len(J.segments), "closed": closed_by_identity(J), "area_split": IntegrateJordan.area(J), "area": a0}
        from symx import shims

        # `==` on curved pieces runs the Newton projection: outside the symbolic fragment, evaluated in replays only
        out["_eq"] = None if shims.installed() else bool(J == JordanCurve.from_ctrlpoints(self.ctrl(xs)))
        J.clean()
        out["cleaned"] = [[[p[0], p[1]] for p in s.ctrlpoints] for s in J.segments]
        out["_orig"] = segs
        return out

    def oblige(self, tr, out):
        T, Fl = z3.BoolVal(True), z3.BoolVal(False)
        orig = out["_orig"]
        n = len(orig) + len(set(self.nodes))
        same = len(out["cleaned"]) == len(orig) and all(len(a) == len(b) and all(_same(p, q) for p, q in zip(a, b)) for a, b in zip(out["cleaned"], orig))
        return [("split of a curved piece: wrong number of pieces / junctions not shared", Fl if out["nseg_split"] == n and out["closed"] else T, {}),
                ("area changed by splitting a curved piece", R.zb(_ne(out["area_split"], out["area"])), {}),
                ("split followed by clean does not restore the original segmentation", Fl if same else T, {"nseg": len(out["cleaned"])})]

    def on_raise(self, exc, func, line):
        return "split/clean raised " + exc

    def confirm(self, name, xs, outcome, exc):
        desc = f"chain {self.chain}+({xs[0]}, {xs[1]}) split(segment {self.index}, nodes {[str(x) for x in self.nodes]})"
        if name.startswith("split/clean raised"):
            return exc is not None, desc + f": {exc}"
        if outcome is None:
            return False, str(exc)
        orig = outcome["_orig"]
        if name.startswith("split of a curved piece"):
            return not (outcome["nseg_split"] == len(orig) + len(set(self.nodes)) and outcome["closed"]), desc + f": {outcome['nseg_split']} segments"
        if name.startswith("area changed"):
            return val(outcome["area_split"]) != val(outcome["area"]), desc + f": {outcome['area_split']} vs {outcome['area']}"
        got = [[(val(p[0]), val(p[1])) for p in s] for s in outcome["cleaned"]]
        want = [[(val(p[0]), val(p[1])) for p in s] for s in orig]
        tol = F(1, 10**9)
        ok = len(got) == len(want) and all(len(a) == len(b) and all(abs(p[0] - q[0]) <= tol and abs(p[1] - q[1]) <= tol for p, q in zip(a, b)) for a, b in zip(got, want))
        return not ok, desc + f": after clean {len(got)} segments of degrees {[len(s) - 1 for s in got]}"

    def signature(self, name, xs, outcome, exc):
        return {"name": name.split(" raised")[0], "curved": True}


def _ne(a, b):
    d = a - b
    if isinstance(d, Sym):
        return d != 0
    return d != 0


def _same(p, q):
    from symx.core import lift

    for a, b in zip(p, q):
        a2, b2 = lift(a), lift(b)
        if not (a2.n == b2.n and a2.d == b2.d):
            return False
    return True


def specs(tier):
    Mo = "checks.c15"
    out = []
    fam = [("square", [0]), ("square", [0, 2]), ("tri", [1, 1]), ("penta", [0, 3]), ("quad", [2, 2]), ("square", [0, 0, 2]), ("tri", [2, 0, 0])]
    fam += [("penta", [1, 1, 4]), ("ell", [0, 2, 5]), ("quad", [3, 3, 3]), ("tri", [0, 1, 2])]
    if tier != "quick":
        fam += [("you", [0, 3, 7]), ("youb", [2, 2, 5]), ("rhombus", [0, 1, 1]), ("notchtri", [1, 2, 2]), ("ell", [5, 5, 5]), ("square", [0, 1, 2, 3]), ("tri", [0, 0, 1, 1])]
    for p, ix in fam:
        out.append(dict(module=Mo, scenario="JSplit", params=dict(poly=p, indexs=ix)))
    cl = [("square", [0], ["1/2"]), ("tri", [1, 1], ["1/4", "2/3"]), ("penta", [0, 3], ["1/3", "1/7"]), ("quad", [2, 2, 0], ["1/5", "4/5", "1/2"])]
    cl += [("ell", [0, 2, 5], ["1/2", "1/2", "9/10"]), ("you", [1, 1, 1], ["1/8", "1/2", "7/8"]), ("square", [0, 1, 2, 3], ["1/2", "1/3", "1/4", "1/5"])]
    if tier != "quick":
        cl += [("youb", [0, 0, 4, 7], ["1/3", "2/3", "1/2", "1/9"]), ("penta", [0, 1, 2, 3, 4], ["1/2", "1/3", "2/3", "1/7", "6/7"]), ("notchtri", [2, 2, 2], ["1/10", "1/2", "9/10"]),
               ("rhombus", [3, 3], ["1/1000", "999/1000"])]
    for p, ix, ns in cl:
        out.append(dict(module=Mo, scenario="JSplit", params=dict(poly=p, indexs=ix, nodes=ns)))
    for p, ix, ns, sc in [("tri", [1, 1], ["1/4", "2/3"], "1/2000"), ("penta", [0, 3], ["1/3", "1/7"], "1/500"), ("square", [0], ["1/3"], "1/5000")] + (
        [("quad", [2, 2, 0], ["1/5", "4/5", "1/2"], "1/3000"), ("ell", [0, 2, 5], ["1/2", "1/3", "9/10"], "1/1000"), ("tri", [0, 1, 2], ["1/3", "1/3", "2/3"], "4000")] if tier != "quick" else []
    ):  # fine drawings: split + clean must restore the segmentation at every size
        out.append(dict(module=Mo, scenario="JSplit", params=dict(poly=p, indexs=ix, nodes=ns, scale=sc)))
    for ch, ix, ns in [("q1", 1, ["1/3"]), ("q2", 0, ["1/4"]), ("c1", 0, ["2/5"]), ("q2", 1, ["1/3", "3/4"]), ("c1", 0, ["1/2"]), ("q1", 1, ["1/2"])] + (
        [("q1", 1, ["1/5", "1/2", "4/5"]), ("q2", 0, ["1/8", "7/8"]), ("c1", 0, ["1/10", "3/10", "7/10"]), ("q2", 1, ["9/10"])] if tier != "quick" else []
    ):
        out.append(dict(module=Mo, scenario="CurvedSplitClean", params=dict(chain=ch, index=ix, nodes=ns)))
    return out


def main(tier, seed):
    from checks.common import Runner

    r = Runner("C15", tier, seed)
    r.run_specs(specs(tier))
    return r.finish(
        explanation="JordanCurve.split with symbolic split parameters on catalogue polygons (the path conditions cover every ordering, repetition, near-0/1 and "
        "nearly-equal case of the parameters), then clean(): per path cell z3 decides that the new vertex list is the original one with the junction points "
        "P_i + n (P_{i+1} - P_i) inserted in order (parameters within 1e-6 of 0/1 ignored), that no piece has library-equal end points, that the signed area is "
        "unchanged, that clean restores the segmentation, is idempotent and that the split curve == the original; junction sharing by identity.",
        assumptions=["straight segments; curved pieces (degree reduction branch) outside", "1-3 symbolic parameters"],
    )
