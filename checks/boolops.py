"""Shared scenario for the Boolean-operator properties (C01, C05, C06, C13): the real
operators executed under SYMX on catalogue shapes, one operand translated symbolically."""
from __future__ import annotations

from fractions import Fraction as F

import z3

from checks import geom
from oracles import region as R
from symx.core import Sym, val

BIN = {
    "|": lambda a, b: a | b,
    "&": lambda a, b: a & b,
    "-": lambda a, b: a - b,
    "^": lambda a, b: a ^ b,
    "+": lambda a, b: a + b,
    "*": lambda a, b: a * b,
}


def ev_shape(e, env):
    if isinstance(e, str):
        return env[e]
    if e[0] == "~":
        return ~ev_shape(e[1], env)
    if e[0] == "neg":
        return -ev_shape(e[1], env)
    return BIN[e[0]](ev_shape(e[1], env), ev_shape(e[2], env))


def ev_region(e, env):
    if isinstance(e, str):
        return env[e]
    if e[0] in ("~", "neg"):
        return ("not", ev_region(e[1], env))
    a, b = ev_region(e[1], env), ev_region(e[2], env)
    if e[0] in ("|", "+"):
        return ("or", [a, b])
    if e[0] in ("&", "*"):
        return ("and", [a, b])
    if e[0] == "-":
        return ("and", [a, ("not", b)])
    if e[0] == "^":
        return ("xor", a, b)
    raise ValueError(e)


def expr_str(e):
    if isinstance(e, str):
        return e
    if e[0] in ("~", "neg"):
        return ("~" if e[0] == "~" else "-") + expr_str(e[1])
    return "(" + expr_str(e[1]) + e[0] + expr_str(e[2]) + ")"


def tolist(e):
    return e if isinstance(e, str) else [e[0]] + [tolist(x) for x in e[1:]]


def totuple(e):
    return e if isinstance(e, str) else tuple([e[0]] + [totuple(x) for x in e[1:]])


class BoolExpr:
    """R = expr(A, B(t), C) with B translated by t*(dx,dy) (1 DOF) or (tx,ty) (2 DOF).
    free variables px, py: the query point of the point-wise obligation."""

    nfree = 2
    ob_timeout_ms = 30000
    path_timeout = 120
    hang_timeout = 60
    max_degree = 2  # atoms of higher degree arise only after the library replaced |C'|^2 < 1e-6 by 1e-6 (segments shorter than 1e-3): such paths are cut as intractable

    def __init__(self, A, B, expr, dof=1, direction=(3, 1), lim=3, C=None, moments=False, wellformed=False, slab=None):
        self.A, self.B, self.C = A, B, C
        self.expr = totuple(expr)
        self.dof = dof
        self.dir = (F(direction[0]), F(direction[1]))
        self.lim = F(lim)
        self.slab = slab
        self.moments = moments
        self.wellformed = wellformed
        self.names = (["t"] if dof == 1 else ["tx", "ty"]) + ["px", "py"]

    def shift(self, xs):
        if self.dof == 1:
            return xs[0] * self.dir[0], xs[0] * self.dir[1]
        return xs[0], xs[1]

    def domain(self, xs):
        cs = []
        for i in range(self.dof):
            cs += [xs[i] >= -self.lim, xs[i] <= self.lim]
        if self.slab is not None:
            lo, hi = self.slab
            cs += [xs[0] >= F(lo), xs[0] <= F(hi)]
        return cs

    def operands(self, xs):
        tx, ty = self.shift(xs)
        env = {"A": geom.make(self.A), "B": geom.make(self.B, tx, ty), "E": geom.make("empty"), "W": geom.make("whole")}
        if self.C:
            env["C"] = geom.make(self.C)
        return env

    def regions(self, xs):
        tx, ty = self.shift(xs)
        env = {"A": geom.region_of_name(self.A), "B": geom.region_of_name(self.B, tx, ty), "E": ("empty",), "W": ("whole",)}
        if self.C:
            env["C"] = geom.region_of_name(self.C)
        return env

    def run(self, xs):
        env = self.operands(xs)
        Rs = ev_shape(self.expr, env)
        out = {"R": geom.describe(Rs)}
        out["_reg"] = geom.region_of_shape(Rs)  # forces the orientation decisions of the result curves
        out["_shape"] = Rs
        out["_xs"] = xs
        self.extra(out, Rs, env, xs)
        return out

    def extra(self, out, Rs, env, xs):
        pass

    # ---- symbolic side
    def want_region(self, xs):
        return ev_region(self.expr, self.regions(xs))

    def oblige(self, tr, out):
        n = len(self.names)
        xs = [Sym.var(i, 0) for i in range(n)]
        px, py = xs[-2], xs[-1]
        if getattr(self, "_want", None) is None:  # the same on every leaf of the job
            want = self.want_region(xs)
            polys = R.polys_of(want)
            self._want = (R.z_off_boundary(px, py, polys), R.z_in(want, px, py))
        off, zwant = self._want
        got = out["_reg"]
        obs = [("result region differs from the set-theoretic one", z3.And(off, R.z_in(got, px, py) != zwant), {"expr": expr_str(self.expr)})]
        obs += self.more_obligations(tr, out, xs)
        return obs

    def more_obligations(self, tr, out, xs):
        return []

    def on_raise(self, exc, func, line):
        return f"operator raised {exc}"

    def on_budget(self):
        return "operator did not return within the path budget"

    def raise_formula(self, tr):
        if getattr(self, "_rf", None) is None:
            self._rf = self._raise_formula(tr)
        return self._rf

    def _raise_formula(self, tr):
        n = len(self.names)
        xs = [Sym.var(i, 0) for i in range(n)]
        regs = self.regions(xs)
        pa = R.polys_of(regs["A"]) + (R.polys_of(regs["C"]) if self.C else [])
        pb = R.polys_of(regs["B"])
        cs = [R.z_transversal(pa, pb)]
        if self.C:
            cs.append(R.z_transversal(R.polys_of(regs["A"]), R.polys_of(regs["C"])))
        return z3.And(cs)

    # ---- plain side
    def confirm(self, name, xs, outcome, exc):
        regs = self.regions(xs)
        if name.startswith("operator raised") or name.startswith("operator did not return"):
            if exc is None:
                return False, "plain run returned normally"
            pa = R.polys_of(regs["A"])
            pb = R.polys_of(regs["B"])
            tv = R.x_transversal(pa, pb)
            if self.C:
                pc = R.polys_of(regs["C"])
                tv = tv and R.x_transversal(pa, pc) and R.x_transversal(pb, pc)
            txt = f"{expr_str(self.expr)} with A={self.A}, B={self.B}+({self.shift(xs)[0]}, {self.shift(xs)[1]}): {exc['exc']} at {exc['where']}; boundaries transversal={tv}"
            return tv, txt
        if outcome is None:
            return False, f"plain run raised {exc}"
        want = ev_region(self.expr, regs)
        p = (xs[-2], xs[-1])
        if name == "result region differs from the set-theoretic one":
            Rs = outcome["_shape"]
            polys = R.polys_of(want)
            d2 = R.x_dist2_boundary(p, polys) if polys else None
            truth = R.x_in(want, p)
            try:
                lib = (p in Rs) if not isinstance(Rs, (geom.EmptyShape, geom.WholeShape)) else isinstance(Rs, geom.WholeShape)
            except Exception as e:  # noqa
                lib = repr(e)
            oracle_on_result = R.x_in(geom.concrete_region(outcome["_reg"]), p)
            txt = (f"{expr_str(self.expr)} A={self.A} B={self.B}+({self.shift(xs)[0]}, {self.shift(xs)[1]}) p=({p[0]}, {p[1]}): set truth {truth}, "
                   f"`p in result` says {lib}, region of result vertices says {oracle_on_result}; result={_short(outcome['R'])}; dist^2 to operand boundaries {d2}")
            bad = (oracle_on_result != truth) and (d2 is None or d2 >= R.BAND**2)
            return bad, txt
        return self.confirm_more(name, xs, outcome, exc)

    def confirm_more(self, name, xs, outcome, exc):
        return False, "unknown obligation " + name

    def signature(self, name, xs, outcome, exc):
        sig = {"name": name.split(" raised")[0] if "raised" in name else name}
        if exc is not None:
            sig["exc"] = exc["exc"]
            sig["func"] = exc["where"][1]
        regs = self.regions(xs)
        pa, pb = R.polys_of(regs["A"]), R.polys_of(regs["B"])
        if self.C:
            pa = pa + R.polys_of(regs["C"])
        d2 = near_contact_d2(pa, pb)
        sig["near_contact_1e-5"] = bool(d2 is not None and d2 < F(1, 10**10))
        tv = R.x_transversal(pa, pb)
        if self.C:  # three operands: every pair of operand boundaries
            tv = tv and R.x_transversal(R.polys_of(regs["A"]), R.polys_of(regs["C"])) and R.x_transversal(pb, R.polys_of(regs["C"]))
            d3 = near_contact_d2(R.polys_of(regs["A"]), R.polys_of(regs["C"]))
            if d3 is not None and d3 < F(1, 10**10):
                sig["near_contact_1e-5"] = True
        sig["boundaries_transversal"] = bool(tv)
        sig["_min_nonzero_vertex_to_other_boundary_dist2"] = str(d2)
        if self.expr[0] == "^" and exc is None:
            # A ^ B is computed as (A - B) | (B - A); the two differences always touch at the crossing points. Does the
            # library then take one difference to be *contained* in the other although it is not (the curve-in-shape
            # test only looks at vertices and at mid-points between proper crossings)?
            try:
                env = self.operands(xs)
                X = env["A"] - env["B"]
                env = self.operands(xs)
                Y = env["B"] - env["A"]
                wrong = False
                for P, Q in ((X, Y), (Y, X)):
                    rq = geom.concrete_region(geom.region_of_shape(Q))
                    rp = geom.concrete_region(geom.region_of_shape(P))
                    says = bool(Q in P)
                    for vs in R.polys_of(rq):
                        c = (sum(v[0] for v in vs) / len(vs), sum(v[1] for v in vs) / len(vs))
                        if says and R.x_in(rq, c) and not R.x_in(rp, c) and R.x_dist2_boundary(c, R.polys_of(rp)) != 0:
                            wrong = True
                sig["xor_difference_wrongly_contained_in_the_other"] = wrong
            except Exception:
                sig["xor_difference_wrongly_contained_in_the_other"] = None
        return sig


def _share_segment(pa, pb):
    """two polygon families have a pair of collinear edges overlapping in more than a point"""
    for va in pa:
        for vb in pb:
            for i in range(len(va)):
                a, b = va[i], va[(i + 1) % len(va)]
                for j in range(len(vb)):
                    c, d = vb[j], vb[(j + 1) % len(vb)]
                    o = lambda p, q, r: (q[0] - p[0]) * (r[1] - p[1]) - (q[1] - p[1]) * (r[0] - p[0])
                    if o(a, b, c) == 0 and o(a, b, d) == 0:
                        # projections on the dominant axis overlap in an interval of positive length
                        k = 0 if a[0] != b[0] else 1
                        lo = max(min(a[k], b[k]), min(c[k], d[k]))
                        hi = min(max(a[k], b[k]), max(c[k], d[k]))
                        if lo < hi:
                            return True
    return False


def near_contact_d2(pa, pb):
    """smallest non-zero squared distance between a vertex of one operand and the boundary of
    the other (exact); None when there is none"""
    best = None
    for P, Q in ((pa, pb), (pb, pa)):
        for vs in P:
            for v in vs:
                d = R.x_dist2_boundary(v, Q) if Q else None
                if d is not None and d != 0 and (best is None or d < best):
                    best = d
    return best


def _short(d):
    if d.get("kind") == "Simple":
        return f"Simple[{len(d['v'])}]"
    if "sub" in d:
        return d["kind"] + "(" + ",".join(_short(s) for s in d["sub"]) + ")"
    return d.get("kind")
