"""C08 Operators and queries leave operands unchanged; results share no state."""
from __future__ import annotations

from copy import copy, deepcopy
from fractions import Fraction as F

import z3

from checks import geom
from checks.c17 import same_num
from oracles import region as R
from shapepy import ConnectedShape, DisjointShape, EmptyShape, IntegrateShape, SimpleShape, WholeShape
from symx.core import Sym, val

OPS = {
    "|": lambda a, b: a | b,
    "&": lambda a, b: a & b,
    "-": lambda a, b: a - b,
    "^": lambda a, b: a ^ b,
    "+": lambda a, b: a + b,
    "*": lambda a, b: a * b,
    "~": lambda a, b: ~a,
    "neg": lambda a, b: -a,
    "copy": lambda a, b: copy(a),
    "deepcopy": lambda a, b: deepcopy(a),
    "Simple(jordan)": lambda a, b: SimpleShape(a.jordans[0]),
    "Disjoint([S])": lambda a, b: DisjointShape([a]),
    "E|": lambda a, b: EmptyShape() | a,
    "W&": lambda a, b: WholeShape() & a,
    "|E": lambda a, b: a | EmptyShape(),
    "&W": lambda a, b: a & WholeShape(),
    "W-": lambda a, b: WholeShape() - a,
    # queries: return nothing that could alias, but must not disturb the operands
    "in": lambda a, b: (b in a, None)[1],
    "==": lambda a, b: (a == b, None)[1],
    "float": lambda a, b: (a.__float__(), IntegrateShape.polynomial(a, 1, 1), a.box(), None)[3],
    "contains_jordan": lambda a, b: (a.contains_jordan(b.jordans[0]), None)[1],
}


def coords(S):
    """every control point of every boundary segment, structurally"""
    if S is None or isinstance(S, (EmptyShape, WholeShape)):
        return None
    return [[[(p[0], p[1]) for p in seg.ctrlpoints] for seg in j.segments] for j in S.jordans]


def same_coords(a, b):
    if a is None or b is None:
        return a is b
    if len(a) != len(b):
        return False
    for ja, jb in zip(a, b):
        if len(ja) != len(jb):
            return False
        for sa, sb in zip(ja, jb):
            if len(sa) != len(sb):
                return False
            for p, q in zip(sa, sb):
                if not (same_num(p[0], q[0]) and same_num(p[1], q[1])):
                    return False
    return True


def mutate(S, how, dx, dy):
    if S is None or isinstance(S, (EmptyShape, WholeShape)):
        return
    if how == "move":
        S.move(dx, dy)
    elif how == "scale":
        S.scale(2 + dx * dx, 3 + dy * dy)
    elif how == "invert":
        for j in S.jordans:
            j.invert()
    elif how == "vertex":  # move one boundary point directly
        S.jordans[0].vertices[0].move((dx, dy))


class Alias:
    """R = op(A, B(t)); the operands must denote the same region afterwards; then one of
    {R, A, B} is mutated in place with symbolic parameters and the other two must keep every
    coordinate (any shared Point2D / segment / curve shows as a dependence on dx, dy)"""

    nfree = 2
    max_degree = 2

    def __init__(self, A, B, op, how="move", who="R"):
        self.A, self.B, self.op, self.how, self.who = A, B, op, how, who
        self.names = ["t", "dx", "dy", "px", "py"]

    def domain(self, xs):
        return [xs[0] >= -3, xs[0] <= 3, xs[1] >= 1, xs[1] <= 50, xs[2] >= 1, xs[2] <= 50]

    def shapes(self, xs):
        return geom.make(self.A), geom.make(self.B, 3 * xs[0], xs[0])

    def run(self, xs):
        A, B = self.shapes(xs)
        Rr = OPS[self.op](A, B)
        out = {"kind": type(Rr).__name__, "_regA": None if isinstance(A, (EmptyShape, WholeShape)) else geom.region_of_shape(A),
               "_regB": None if isinstance(B, (EmptyShape, WholeShape)) else geom.region_of_shape(B)}
        out["singleton_copy_ok"] = True
        if self.op in ("copy", "deepcopy") and isinstance(A, (EmptyShape, WholeShape)):
            out["singleton_copy_ok"] = Rr is A
        objs = {"R": Rr, "A": A, "B": B}
        snap = {k: coords(v) for k, v in objs.items()}
        out["is_operand"] = (Rr is A) or (Rr is B)
        mutate(objs[self.who], self.how, xs[1], xs[2])
        after = {k: coords(v) for k, v in objs.items()}
        out["unchanged"] = {k: same_coords(snap[k], after[k]) for k in objs if k != self.who}
        out["moved"] = (not same_coords(snap[self.who], after[self.who])) if snap[self.who] is not None else None
        return out

    def oblige(self, tr, out):
        T, Fl = z3.BoolVal(True), z3.BoolVal(False)
        xs = [Sym.var(i, 0) for i in range(5)]
        px, py = xs[3], xs[4]
        obs = [("mutating one of {result, operands} changed another: shared mutable state", Fl if all(out["unchanged"].values()) and out["singleton_copy_ok"] else T,
                {"unchanged": out["unchanged"]})]
        # the operator itself: operands denote the same region as before the call
        for key, name in (("_regA", self.A), ("_regB", self.B)):
            got = out[key]
            if got is None:
                continue
            want = geom.region_of_name(name) if key == "_regA" else geom.region_of_name(name, 3 * xs[0], xs[0])
            polys = R.polys_of(want) + R.polys_of(got)
            obs.append((f"operand {key[-1]} denotes a different region after the call", z3.And(R.z_off_boundary(px, py, polys), R.z_in(got, px, py) != R.z_in(want, px, py)), {}))
        return obs

    def on_raise(self, exc, func, line):
        return None  # raising is C01's / C11's subject

    def confirm(self, name, xs, outcome, exc):
        if outcome is None:
            return False, str(exc)
        desc = f"R = {self.op}(A={self.A}, B={self.B}+({3*xs[0]}, {xs[0]})); {self.who}.{self.how}({xs[1]}, {xs[2]})"
        if name.startswith("mutating"):
            return not (all(outcome["unchanged"].values()) and outcome["singleton_copy_ok"]), desc + f": unchanged={outcome['unchanged']} result kind {outcome['kind']}"
        key = "_regA" if "operand A" in name else "_regB"
        got = outcome[key]
        want = geom.region_of_name(self.A) if key == "_regA" else geom.region_of_name(self.B, 3 * xs[0], xs[0])
        p = (xs[3], xs[4])
        a, b = R.x_in(geom.concrete_region(got), p), R.x_in(want, p)
        return a != b, desc + f": p={p} in operand after the call {a}, before {b}"

    def signature(self, name, xs, outcome, exc):
        return {"name": name.split(":")[0], "op": self.op}


def specs(tier):
    Mo = "checks.c08"
    out = []
    pairs = [("square", "unit")] if tier == "quick" else [("square", "unit"), ("hollow2", "unit"), ("two", "square"), ("inv:square", "unit"), ("big", "hollow2")]
    for A, B in pairs:
        for op in ["|", "&", "-", "^"]:
            for who in ("R", "A", "B"):
                if tier == "quick" and who == "B" and op in ("-", "^"):
                    continue
                out.append(dict(module=Mo, scenario="Alias", params=dict(A=A, B=B, op=op, who=who), time_budget=120 if tier == "quick" else 1500))
        for op in ["~", "copy", "deepcopy", "Simple(jordan)" if A in ("square",) else "neg", "Disjoint([S])" if A in ("square", "hollow2") else "+", "E|", "W&", "|E", "&W", "W-", "in", "==", "float", "contains_jordan"]:
            out.append(dict(module=Mo, scenario="Alias", params=dict(A=A, B=B, op=op, who="R" if op not in ("in", "==", "float", "contains_jordan") else "A"), time_budget=60 if tier == "quick" else 600))
    # copies of composite shapes of every nesting (a Disjoint with a Connected component, a Connected, complements)
    for A in ["framedot", "hollow", "two"] + (["inv:framedot", "inv:two", "bullseye", "opring"] if tier != "quick" else []):
        for op in ["copy", "deepcopy", "~", "E|", "W&", "|E", "&W"]:
            out.append(dict(module=Mo, scenario="Alias", params=dict(A=A, B="unit", op=op, who="R"), time_budget=60 if tier == "quick" else 600))
    for how in ("scale", "invert", "vertex"):
        out.append(dict(module=Mo, scenario="Alias", params=dict(A="square", B="unit", op="&", who="R", how=how), time_budget=120))
        out.append(dict(module=Mo, scenario="Alias", params=dict(A="square", B="unit", op="|", who="A", how=how), time_budget=120))
    for s in ("empty", "whole"):
        out.append(dict(module=Mo, scenario="Alias", params=dict(A=s, B="unit", op="copy", who="B")))
        out.append(dict(module=Mo, scenario="Alias", params=dict(A=s, B="unit", op="deepcopy", who="B")))
    return out


def main(tier, seed):
    from checks.common import Runner

    r = Runner("C08", tier, seed)
    r.run_specs(specs(tier))
    return r.finish(
        explanation="R = op(A, B(t)) under SYMX for every operator, copy/deepcopy, SimpleShape(jordan), DisjointShape([S]) and the queries (in, ==, float/integral/box, "
        "contains_jordan); path exploration over t reaches every short-cut branch (Empty, Whole, contained, containing, disjoint, crossing). Then one of {R, A, B} is "
        "mutated in place with *symbolic* parameters (move / scale / invert / a single vertex): every control-point coordinate of the other two must be the identical "
        "polynomial as before (a shared Point2D, segment or curve makes it depend on dx, dy). Operands must denote the same region after the call (query point free).",
        assumptions=["polygonal catalogue shapes, 1 translation parameter + 2 mutation parameters"],
    )
