"""C09 move / rotate / scale transform the region exactly as the affine map does."""
from __future__ import annotations

from fractions import Fraction as F

import z3

from checks import geom
from checks.c18 import zraw
from oracles import moments as M
from oracles import region as R
from shapepy import IntegrateShape, Primitive
from symx import core
from symx.core import Sym, val, zterm
from symx.shims import SymAngle

E2 = [(0, 0), (1, 0), (0, 1), (2, 0), (1, 1), (0, 2)]


def apply(S, kind, p, inverse=False):
    if kind == "move":
        return S.move(-p[0], -p[1]) if inverse else S.move(p[0], p[1])
    if kind == "movetuple":
        return S.move((-p[0], -p[1])) if inverse else S.move((p[0], p[1]))
    if kind == "moveown":  # the translation is given as one of the shape's own vertex objects (the second vertex of its first curve)
        v = S.jordans[0].vertices[1]
        return S.move(v)
    if kind == "scale":
        return S.scale(1 / p[0], 1 / p[1]) if inverse else S.scale(p[0], p[1])
    if kind == "rotate":
        return S.rotate(Rot(p[0], -p[1])) if inverse else S.rotate(Rot(p[0], p[1]))
    raise ValueError(kind)


def Rot(c, s):
    """the rotation argument: an abstract angle with exact (cos, sin) in the symbolic worker; in
    the replay worker the float angle atan2(s, c)"""
    from symx import shims

    if shims.installed():
        return SymAngle(c, s)
    import math

    return math.atan2(float(s), float(c))


def tmap(kind, p, x, y):
    if kind in ("move", "movetuple", "moveown"):
        return x + p[0], y + p[1]
    if kind == "scale":
        return x * p[0], y * p[1]
    return p[0] * x - p[1] * y, p[1] * x + p[0] * y


def det(kind, p):
    if kind in ("move", "movetuple", "moveown"):
        return 1
    if kind == "scale":
        return p[0] * p[1]
    return p[0] * p[0] + p[1] * p[1]


class TransformPoly:
    """polygon with n symbolic vertices, one in-place transformation with symbolic parameters"""

    nfree = 0
    raw = True
    ob_timeout_ms = 60000

    def __init__(self, n, kind, inverse=False):
        self.n, self.kind, self.inverse = n, kind, inverse
        self.names = [f"x{i}" for i in range(n)] + [f"y{i}" for i in range(n)] + ["p", "q"]

    def domain(self, xs):
        if self.kind == "scale":
            return [xs[-2] >= F(1, 1000), xs[-1] >= F(1, 1000)]
        return []

    def seed(self):
        import math

        n = self.n
        xs = [F(round(70 * math.cos(2 * math.pi * i / n)) + i, 7) for i in range(n)]
        ys = [F(round(70 * math.sin(2 * math.pi * i / n)) + (i * i) % 3, 7) for i in range(n)]
        pq = {"move": [F(3, 2), F(-2, 5)], "movetuple": [F(3, 2), F(-2, 5)], "moveown": [F(0), F(0)], "scale": [F(3, 2), F(2, 5)], "rotate": [F(3, 5), F(4, 5)]}[self.kind]
        return xs + ys + pq

    def verts(self, xs):
        n = self.n
        return [(xs[i], xs[n + i]) for i in range(n)]

    def run(self, xs):
        S = Primitive.polygon(self.verts(xs))
        p = (xs[-2], xs[-1])
        m0 = [IntegrateShape.polynomial(S, a, b) for a, b in E2]  # queried before the transformation
        r = apply(S, self.kind, p)
        out = {"same": r is S, "v": geom.describe(S)["v"], "m": [IntegrateShape.polynomial(S, a, b) for a, b in E2], "m0": m0}
        if self.inverse:
            r2 = apply(S, self.kind, p, inverse=True)
            out["back"] = geom.describe(S)["v"]
            out["same2"] = r2 is S
            out["m_back"] = [IntegrateShape.polynomial(S, a, b) for a, b in E2[:3]]
        return out

    def oblige(self, tr, out):
        z = tr.zvars
        n = self.n
        vs = [(z[i], z[n + i]) for i in range(n)]
        p = (z[-2], z[-1]) if self.kind != "moveown" else vs[1]
        tv = [tmap(self.kind, p, x, y) for x, y in vs]
        pre = []
        if self.kind == "rotate":
            pre = [p[0] * p[0] + p[1] * p[1] == 1]
        obs = [("transformation does not return the same object", z3.BoolVal(not (out["same"] and out.get("same2", True))), {})]
        bad = [z3.BoolVal(len(out["v"]) != n)]
        if len(out["v"]) == n:
            for (gx, gy), (wx, wy) in zip(out["v"], tv):
                bad += [zraw(tr, gx) != wx, zraw(tr, gy) != wy]
        obs.append(("a vertex is not the image of the original vertex", z3.And(pre + [z3.Or(bad)]), {}))
        om = [M.chain_moment(M.polygon_segments(tv), a, b, M.qz3) for a, b in E2]
        obs.append(("moments after the transformation are not those of the image region", z3.And(pre + [z3.Or([zraw(tr, g) != w for g, w in zip(out["m"], om)])]), {}))
        o0 = M.chain_moment(M.polygon_segments(vs), 0, 0, M.qz3)
        obs.append(("area is not |det T| times the old area", z3.And(pre + [zraw(tr, out["m"][0]) != det(self.kind, p) * o0]), {}))
        if self.inverse:
            badb = [z3.BoolVal(len(out["back"]) != n)]
            if len(out["back"]) == n:
                for (gx, gy), (wx, wy) in zip(out["back"], vs):
                    badb += [zraw(tr, gx) != wx, zraw(tr, gy) != wy]
            obm = [M.chain_moment(M.polygon_segments(vs), a, b, M.qz3) for a, b in E2[:3]]
            badb += [zraw(tr, g) != w for g, w in zip(out["m_back"], obm)]
            obs.append(("the inverse transformation does not restore the shape", z3.And(pre + [z3.Or(badb)]), {}))
        return obs

    def on_raise(self, exc, func, line):
        return "transformation raised " + exc

    def confirm(self, name, xs, outcome, exc):
        if name.startswith("transformation raised"):
            return exc is not None, str(exc)
        if outcome is None:
            return False, str(exc)
        n = self.n
        vs = self.verts(xs)
        p = (xs[-2], xs[-1]) if self.kind != "moveown" else vs[1]
        tv = [tmap(self.kind, p, x, y) for x, y in vs]
        tol = F(0) if self.kind != "rotate" else F(1, 10**9)  # a float angle stands for the exact (cos, sin) pair in the replay

        def close(a, b):
            a = val(a)
            return abs(a - b) <= tol * max(1, abs(b))

        desc = f"{self.kind}({p[0]}, {p[1]}) on polygon {[(str(x), str(y)) for x, y in vs]}"
        if name.startswith("transformation does not return"):
            return not (outcome["same"] and outcome.get("same2", True)), desc
        if name.startswith("a vertex is not"):
            got = outcome["v"]
            bad = len(got) != n or any(not close(g[0], w[0]) or not close(g[1], w[1]) for g, w in zip(got, tv))
            return bad, desc + f": vertices {[(str(a), str(b)) for a, b in got]} expected {[(str(a), str(b)) for a, b in tv]}"
        if name.startswith("moments after"):
            om = [M.chain_moment(M.polygon_segments(tv), a, b, M.qfrac) for a, b in E2]
            bad = [(e, str(g), str(w)) for e, g, w in zip(E2, outcome["m"], om) if not close(g, w)]
            return bool(bad), desc + f": moments {bad[:3]}"
        if name.startswith("area is not"):
            o0 = M.chain_moment(M.polygon_segments(vs), 0, 0, M.qfrac)
            return not close(outcome["m"][0], det(self.kind, p) * o0), desc + f": area {outcome['m'][0]} expected {det(self.kind, p) * o0}"
        if name.startswith("the inverse"):
            got = outcome["back"]
            obm = [M.chain_moment(M.polygon_segments(vs), a, b, M.qfrac) for a, b in E2[:3]]
            tol2 = tol if self.kind == "rotate" else F(0)
            bad = len(got) != n or any(abs(val(g[0]) - w[0]) > tol2 or abs(val(g[1]) - w[1]) > tol2 for g, w in zip(got, vs)) or any(not close(g, w) for g, w in zip(outcome["m_back"], obm))
            return bad, desc + f": after the inverse {[(str(a), str(b)) for a, b in got]}, moments {[str(m) for m in outcome['m_back']]} expected {[str(m) for m in obm]}"
        return False, "unknown " + name

    def signature(self, name, xs, outcome, exc):
        return {"name": name}


class TransformShape:
    """catalogue shape (any kind) built at a symbolic translation, then moved / scaled by symbolic
    parameters: every vertex is the image, kind preserved, p in S <=> T(p) in T(S) (translations)"""

    nfree = 2
    max_degree = 2

    def __init__(self, shape, kind):
        self.shape, self.kind = shape, kind
        self.names = ["tx", "p", "q", "px", "py"]

    def domain(self, xs):
        cs = [xs[0] >= -5, xs[0] <= 5]
        if self.kind == "scale":
            cs += [xs[1] >= F(1, 1000), xs[2] >= F(1, 1000), xs[1] <= 1000, xs[2] <= 1000]
        else:
            cs += [xs[1] >= -10**6, xs[1] <= 10**6, xs[2] >= -10**6, xs[2] <= 10**6]
        return cs

    def run(self, xs):
        S = geom.make(self.shape, xs[0], xs[0] * F(1, 2))
        before = geom.describe(S)
        r = apply(S, self.kind, (xs[1], xs[2]))
        after = geom.describe(S)
        return {"same": r is S, "before": before, "after": after, "area": IntegrateShape.area(S), "_reg": geom.region_of_shape(S)}

    def oblige(self, tr, out):
        xs = [Sym.var(i, 0) for i in range(5)]
        p = (xs[1], xs[2])
        obs = [("transformation does not return the same object", z3.BoolVal(not out["same"]), {})]
        bad = []
        fb, fa = _flat(out["before"]), _flat(out["after"])
        obs.append(("kind / structure changed", z3.BoolVal(_kinds(out["before"]) != _kinds(out["after"]) or len(fb) != len(fa)), {}))
        if len(fb) == len(fa):
            for (x, y), (gx, gy) in zip(fb, fa):
                wx, wy = tmap(self.kind, p, x, y)
                bad += [R.zb(gx != wx), R.zb(gy != wy)]
            obs.append(("a vertex is not the image of the original vertex", z3.Or(bad), {}))
        if self.kind in ("move", "movetuple"):
            # membership: region of the moved shape at p+d  ==  independent region of the original at p
            px, py = xs[3], xs[4]
            want = geom.region_of_name(self.shape, xs[0], xs[0] * F(1, 2))
            polys = R.polys_of(want)
            obs.append(("T(p) in T(S) differs from p in S", z3.And(R.z_off_boundary(px, py, polys), R.z_in(want, px, py) != R.z_in(out["_reg"], px + p[0], py + p[1])), {}))
        return obs

    def on_raise(self, exc, func, line):
        return "transformation raised " + exc

    def confirm(self, name, xs, outcome, exc):
        if name.startswith("transformation raised"):
            return exc is not None, str(exc)
        if outcome is None:
            return False, str(exc)
        p = (xs[1], xs[2])
        desc = f"{self.shape}+({xs[0]}, {xs[0]/2}) {self.kind}({p[0]}, {p[1]})"
        fb, fa = _flat(outcome["before"]), _flat(outcome["after"])
        if name.startswith("transformation does not"):
            return not outcome["same"], desc
        if name.startswith("kind"):
            return _kinds(outcome["before"]) != _kinds(outcome["after"]) or len(fb) != len(fa), desc
        if name.startswith("a vertex"):
            bad = [(str(g[0]), str(g[1])) for (x, y), g in zip(fb, fa) if (val(g[0]), val(g[1])) != tmap(self.kind, p, val(x), val(y))]
            return bool(bad), desc + f": vertices not mapped {bad[:3]}"
        if name.startswith("T(p) in T(S)"):
            want = geom.region_of_name(self.shape, xs[0], xs[0] * F(1, 2))
            q = (xs[3] + p[0], xs[4] + p[1])
            a, b = R.x_in(want, (xs[3], xs[4])), R.x_in(geom.concrete_region(outcome["_reg"]), q)
            return a != b, desc + f": p=({xs[3]}, {xs[4]}) in S is {a}, T(p) in T(S) is {b}"
        return False, "unknown"

    def signature(self, name, xs, outcome, exc):
        return {"name": name}


class RotateDegrees:
    """shape.rotate(angle, degrees=True) with a concrete angle in degrees on catalogue shapes of every kind placed at a
    symbolic translation: every boundary curve must turn by the same angle (float trigonometry: compared to 1e-6)"""

    nfree = 0
    ANGLES = {90: (F(0), F(1)), 180: (F(-1), F(0)), 270: (F(0), F(-1)), -90: (F(0), F(-1))}

    def __init__(self, shape, angle=90, level="shape"):
        self.shape, self.angle, self.level = shape, angle, level
        self.names = ["tx", "ty"]

    def domain(self, xs):
        return [xs[0] >= -100, xs[0] <= 100, xs[1] >= -100, xs[1] <= 100]

    def run(self, xs):
        S = geom.make(self.shape, xs[0], xs[1])
        before = [[p[0], p[1]] for j in S.jordans for p in geom.jordan_vertices(j)]  # in the library's curve order
        if self.level == "shape":
            r = S.rotate(self.angle, degrees=True)
            same = r is S
        else:
            same = all(j.rotate(self.angle, degrees=True) is j for j in S.jordans)
        after = [[p[0], p[1]] for j in S.jordans for p in geom.jordan_vertices(j)]
        return {"same": same, "before": [list(p) for p in before], "after": after}

    def oblige(self, tr, out):
        c, sn = self.ANGLES[self.angle]
        e = F(1, 10**6)
        bad = [z3.BoolVal(len(out["before"]) != len(out["after"]) or not out["same"])]
        if len(out["before"]) == len(out["after"]):
            for (x, y), (gx, gy) in zip(out["before"], out["after"]):
                wx, wy = c * x - sn * y, sn * x + c * y
                bad.append(R.zor(gx - wx > e, wx - gx > e, gy - wy > e, wy - gy > e))
        return [("a boundary curve is not rotated by the given angle in degrees", z3.Or(bad), {})]

    def on_raise(self, exc, func, line):
        return "transformation raised " + exc

    def confirm(self, name, xs, outcome, exc):
        if name.startswith("transformation raised"):
            return exc is not None, str(exc)
        if outcome is None:
            return False, str(exc)
        c, sn = self.ANGLES[self.angle]
        e = F(1, 10**6)
        bad = []
        for (x, y), (gx, gy) in zip(outcome["before"], outcome["after"]):
            x, y = val(x), val(y)
            wx, wy = c * x - sn * y, sn * x + c * y
            if abs(F(gx) - wx) > e or abs(F(gy) - wy) > e:
                bad.append(((str(x), str(y)), (float(gx), float(gy)), (str(wx), str(wy))))
        return bool(bad) or len(outcome["before"]) != len(outcome["after"]) or not outcome["same"], f"{self.shape}+({xs[0]}, {xs[1]}) rotate({self.angle}, degrees=True) at {self.level} level: {bad[:2]}"

    def signature(self, name, xs, outcome, exc):
        return {"name": name}


def _flat(d):
    if d["kind"] == "Simple":
        return [tuple(v) for v in d["v"]]
    out = []
    for s in d.get("sub", []):
        out += _flat(s)
    return out


def _kinds(d):
    return [d["kind"]] + [k for s in d.get("sub", []) for k in _kinds(s)]


def specs(tier):
    Mo = "checks.c09"
    out = []
    kinds = ["move", "movetuple", "scale", "rotate"]
    for n in (3, 4) if tier == "quick" else (3, 4, 5):
        out.append(dict(module=Mo, scenario="TransformPoly", params=dict(n=n, kind="moveown"), time_budget=300))
    for n in (3, 4, 5) if tier == "quick" else (3, 4, 5, 6, 7, 8):
        for k in kinds:
            out.append(dict(module=Mo, scenario="TransformPoly", params=dict(n=n, kind=k, inverse=(n <= 4 or tier != "quick")), time_budget=300 if tier == "quick" else 1800))
    for s in ["hollow", "two", "inv:two", "framedot", "inv:hollow", "cw:penta", "ell"] + (["opring", "tinyring", "hollow2", "inv:framedot", "cw:ell", "youb", "inv:opring"] if tier != "quick" else []):
        for k in ("move", "scale"):
            out.append(dict(module=Mo, scenario="TransformShape", params=dict(shape=s, kind=k), time_budget=300 if tier == "quick" else 1800))
    for s_, ang in [("hollow", 90), ("two", 180), ("penta", 270), ("framedot", -90), ("inv:two", 90), ("opring", 180)] + (
        [("tinyring", 270), ("hollow2", -90), ("inv:framedot", 180), ("cw:ell", 90)] if tier != "quick" else []
    ):
        for level in ("shape", "curve"):
            out.append(dict(module=Mo, scenario="RotateDegrees", params=dict(shape=s_, angle=ang, level=level)))
    return out


def main(tier, seed):
    from checks.common import Runner

    r = Runner("C09", tier, seed)
    r.run_specs(specs(tier))
    return r.finish(
        explanation="move / scale / rotate executed under SYMX on polygons with all vertices and the transformation parameters symbolic (rotation: abstract angle "
        "with symbolic (cos, sin), cos^2+sin^2=1 assumed in the obligation): z3 proves every vertex is the affine image, the same object is returned, moments of "
        "order <= 2 (real integrator, queried before and after) are those of the image, area scales by |det|, the inverse restores the coordinates; composite and "
        "unbounded catalogue shapes: vertex images, kind preserved, T(p) in T(S) <=> p in S for translations (query point free).",
        assumptions=["degrees=True conversion and float trigonometry are outside; in replays of rotations a float angle stands for the exact (cos, sin) pair (compared to 1e-9)"],
    )
