"""CrossHair as a second engine for integer / list kernels (DESIGN.md 2.4)."""
import os
import re
import subprocess
import sys
import time

ROOT = os.path.dirname(os.path.dirname(os.path.abspath(__file__)))


def run(functions, timeout=40):
    """returns dict name -> (verdict, detail); verdict in confirmed / refuted / inconclusive"""
    path = os.path.join(ROOT, "crosshair_kernels", "kernels.py")
    src = open(path).read().splitlines()
    env = dict(os.environ)
    env["PYTHONPATH"] = ROOT + ":" + os.environ.get("SHAPEPY_SRC", "/repo/src")
    procs = {}
    for fn in functions:
        line = next(i for i, l in enumerate(src) if l.startswith(f"def {fn}(")) + 2
        cmd = [sys.executable, "-m", "crosshair", "check", "--report_all", "--per_condition_timeout", str(timeout), f"{path}:{line}"]
        procs[fn] = subprocess.Popen(cmd, stdout=subprocess.PIPE, stderr=subprocess.STDOUT, text=True, env=env, cwd=ROOT)
    out = {}
    t0 = time.time()
    for fn, p in procs.items():
        try:
            txt, _ = p.communicate(timeout=timeout * 3 + 60)
        except subprocess.TimeoutExpired:
            p.kill()
            txt = "timeout"
        if "Confirmed over all paths" in txt:
            out[fn] = ("confirmed", "")
        elif re.search(r"error: (false|False) when calling|error: .* when calling", txt):
            out[fn] = ("refuted", txt.strip()[-400:])
        else:
            out[fn] = ("inconclusive", txt.strip()[-200:])
    return out, round(time.time() - t0, 1)


if __name__ == "__main__":
    print(run(sys.argv[1:]))


def concrete_counterexample(fn):
    """replay of a CrossHair refutation: search the (tiny) bounded domain of the kernel for a concrete failing input"""
    import itertools

    sys.path.insert(0, ROOT)
    from crosshair_kernels import kernels as K

    f = getattr(K, fn)
    if fn.startswith("comb"):
        for n in range(0, 7):
            for i in range(0, n + 1):
                r = f(n, i)
                ok = (r * K._fact(i) * K._fact(n - i) == K._fact(n)) if fn == "comb_is_binomial" else bool(r)
                if not ok:
                    return dict(n=n, i=i, result=r)
        return None
    vals = range(0, 5)
    for ln in range(1, 5):
        for xs in itertools.permutations(vals, ln):
            xs = list(xs)
            if fn == "rotation_is_recognised":
                for k in range(ln):
                    if not f(xs, k):
                        return dict(xs=xs, k=k)
            elif fn == "non_rotation_is_rejected":
                for ys in itertools.product(vals, repeat=ln):
                    if not f(xs, list(ys)):
                        return dict(xs=xs, ys=list(ys))
            elif ln >= 2:
                for k in range(ln):
                    for j in range(ln):
                        if not f(xs, k, j):
                            return dict(xs=xs, k=k, j=j)
    return None


def attach(runner, functions, prop):
    """run the kernels, record the verdicts in the evidence of `runner`; a refutation that reproduces concretely is a violation"""
    res, wall = run(functions)
    runner.extra["crosshair_kernels"] = {"engine": "crosshair-tool 0.0.110 (--report_all, per-condition timeout 40 s)", "wall_s": wall,
                                         "verdicts": {k: v[0] for k, v in res.items()}, "note": "only 'confirmed' (Confirmed over all paths) counts; 'inconclusive' is not success"}
    for fn, (verdict, detail) in res.items():
        if verdict == "refuted":
            cex = concrete_counterexample(fn)
            if cex is not None:
                runner.extra_violations.append(dict(name=f"CrossHair refuted kernel {fn}", env=[], spec=dict(scenario="crosshair:" + fn, params={}), reproduced=True, meta={},
                                                    text=f"{fn} fails for {cex}", sig={"name": "crosshair kernel", "kernel": fn}))
            else:
                runner.harness_errors.append(("CrossHair refutation did not reproduce", fn, detail))
