"""C10 Answers depend only on the current geometry, not on earlier calls."""
from __future__ import annotations

from copy import deepcopy
from fractions import Fraction as F

import z3

from checks import geom
from checks.c09 import Rot
from checks.c17 import same_num
from oracles import region as R
from shapepy import EmptyShape, IntegrateShape, WholeShape
from symx.core import Sym, lift, val

PROBES = [(F(1, 3), F(1, 5)), (F(5, 2), F(1, 2)), (F(-7, 3), F(9, 4)), (F(21, 4), F(-1, 7))]


def num_equal(a, b):
    """identical exact values (polynomial identity) or identical algebraic sums of square roots"""
    d = a - b
    if hasattr(d, "terms"):  # SymSqrt left over: not identical
        return False
    if isinstance(d, Sym):
        return d.is_concrete() and d.c == 0
    if isinstance(d, float):
        return abs(d) <= 1e-9 * max(1.0, abs(float(val(a))))
    return d == 0


def diff_formula(a, b):
    """z3 condition (over the inputs) under which two answer values differ; None if identical"""
    from oracles.region import zb

    if num_equal(a, b):
        return None
    if hasattr(a, "terms") and hasattr(b, "terms") and len(a.terms) == len(b.terms):
        cs = []
        for (c1, r1), (c2, r2) in zip(a.terms, b.terms):
            for x, y in ((c1, c2), (r1, r2)):
                d = x - y
                if isinstance(d, Sym):
                    cs.append(zb(d != 0))
                elif d != 0:
                    return z3.BoolVal(True)
        d = a.rat - b.rat
        if isinstance(d, Sym):
            cs.append(zb(d != 0))
        elif not isinstance(d, float) and d != 0:
            return z3.BoolVal(True)
        return z3.Or(cs) if cs else None
    d = a - b
    if isinstance(d, Sym):
        return zb(d != 0)
    return z3.BoolVal(True)


def answers(S, probes=PROBES, T=None):
    if isinstance(S, (EmptyShape, WholeShape)):
        return {"kind": type(S).__name__}
    b = S.box()
    return {
        "has": [bool(deepcopy(T) in S)] if T is not None else [],
        "kind": type(S).__name__,
        "area": S.__float__(),
        "m10": IntegrateShape.polynomial(S, 1, 0),
        "length": [j.__float__() for j in S.jordans],
        "ccw": [bool(j.__float__() > 0) for j in S.jordans],
        "box": [b.lowpt[0], b.lowpt[1], b.toppt[0], b.toppt[1]],
        "in": [bool(p in S) for p in probes],
        "in_open": [bool(S.contains_point(p, False)) for p in probes],
        "edge_mid": _edge_mid_answers(S),
    }


def _edge_mid_answers(S):
    """closed / open containment of the middle points of the first two edges of every boundary curve (points that are
    exactly on the current boundary)"""
    out = []
    for j in S.jordans:
        for seg in j.segments[:2]:
            a, b = seg.ctrlpoints[0], seg.ctrlpoints[-1]
            m = ((a[0] + b[0]) / 2, (a[1] + b[1]) / 2)
            out += [bool(S.contains_point(m, True)), bool(S.contains_point(m, False)), bool(m in j)]
    return out


def compare(a, b, formulas=None):
    """list of keys on which the two answer records differ (formulas: collects the z3 conditions
    under which the numeric ones differ)"""
    bad = []
    T = z3.BoolVal(True)
    for k in a:
        x, y = a[k], b.get(k)
        if k in ("kind", "ccw", "in", "in_open", "has", "edge_mid"):
            if x != y:
                bad.append(k)
                if formulas is not None:
                    formulas.append(T)
        else:
            xs_, ys_ = (x, y) if isinstance(x, list) else ([x], [y])
            if len(xs_) != len(ys_):
                bad.append(k)
                if formulas is not None:
                    formulas.append(T)
                continue
            fs = [diff_formula(p, q) for p, q in zip(xs_, ys_)]
            fs = [f for f in fs if f is not None]
            if fs:
                bad.append(k)
                if formulas is not None:
                    formulas += fs
    return bad


def step(S, T, name, a, b):
    if name == "move":
        S.move(a, -a)
    elif name == "scale":
        S.scale(b, b)
    elif name == "scale_neg":
        S.scale(-b, -b)
    elif name == "scale_xy":
        S.scale(b, 1 / b)
    elif name == "rotate":
        S.rotate(Rot(F(3, 5), F(4, 5)))
    elif name == "invert":
        if hasattr(S, "invert"):
            S.invert()  # public in-place inversion exists for simple shapes only
    elif name == "float":
        S.__float__()
        [j.__float__() for j in S.jordans]
    elif name == "in":
        PROBES[0] in S
    elif name == "box":
        S.box()
    elif name == "or":
        S | T
    elif name == "sub":
        S - T
    elif name == "xor":
        T ^ S
    elif name == "eq":
        S == T
    elif name == "contains":
        T in S
    elif name == "split":
        S.jordans[0].split([0], [F(1, 3)])
    else:
        raise ValueError(name)


class HistLive:
    """after every prefix of a history of in-place transformations / queries / operators the live
    object answers every query exactly as a deep copy taken at that moment"""

    nfree = 0
    max_degree = 2
    spot_names = ["live object answers differently from its deep copy"]

    def __init__(self, shape, other, history):
        self.shape, self.other, self.history = shape, other, list(history)
        self.names = ["a", "b", "t"]

    def domain(self, xs):
        return [xs[0] >= -20, xs[0] <= 20, xs[1] >= F(1, 4), xs[1] <= 4, xs[2] >= -3, xs[2] <= 3]

    def seed(self):
        return [F(3, 2), F(2), F(1, 2)]

    def run(self, xs):
        a, b, t = xs
        S = geom.make(self.shape)
        T = geom.make(self.other, 3 * t, t)
        diffs = []
        forms = []
        from symx import shims

        for k, name in enumerate(self.history):
            step(S, T, name, a, b)
            live = answers(S, T=T)
            cp = answers(deepcopy(S), T=T)
            d = compare(live, cp, forms if shims.installed() else None)
            if d:
                diffs.append([k, name, d])
        return {"diffs": diffs, "_forms": forms}

    def oblige(self, tr, out):
        f = z3.Or(out["_forms"]) if out["_forms"] else z3.BoolVal(False)
        if any(h.startswith("scale") for h in self.history):
            f = z3.And(f, tr.zvars[1] != 1)  # scaling by exactly 1 changes nothing: keep the witness off that point
        return [("live object answers differently from its deep copy", f, {"diffs": out["diffs"]})]

    def on_raise(self, exc, func, line):
        return None

    def confirm(self, name, xs, outcome, exc):
        if outcome is None:
            return False, str(exc)
        return bool(outcome["diffs"]), f"{self.shape} (other {self.other}+({3*xs[2]}, {xs[2]})) history {self.history} with a={xs[0]}, b={xs[1]}: after step(s) {outcome['diffs']} the live object and its deep copy disagree"

    def signature(self, name, xs, outcome, exc):
        keys = sorted({k for d in (outcome or {}).get("diffs", []) for k in d[2]})
        steps = sorted({d[1] for d in (outcome or {}).get("diffs", [])})
        return {"name": name, "differing_answers": keys, "after": steps}


class Disturb:
    """question q2 asked after q1 on the same live objects gives the same answer (kind, area, region)
    as q2 asked on fresh copies: the in-place splitting done by q1 must not change q2"""

    nfree = 2
    max_degree = 2

    Q = {"or": lambda a, b: a | b, "and": lambda a, b: a & b, "sub": lambda a, b: a - b, "bus": lambda a, b: b - a, "xor": lambda a, b: a ^ b,
         "in": lambda a, b: bool(b in a), "ni": lambda a, b: bool(a in b), "eq": lambda a, b: bool(a == b)}

    def __init__(self, A, B, q1, q2):
        self.A, self.B, self.q1, self.q2 = A, B, q1, q2
        self.names = ["t", "px", "py"]

    def domain(self, xs):
        return [xs[0] >= -3, xs[0] <= 3]

    def run(self, xs):
        t = xs[0]
        A, B = geom.make(self.A), geom.make(self.B, 3 * t, t)
        self.Q[self.q1](A, B)
        live = self.Q[self.q2](A, B)
        A2, B2 = geom.make(self.A), geom.make(self.B, 3 * t, t)
        fresh = self.Q[self.q2](A2, B2)
        if isinstance(live, bool):
            return {"bool": [live, fresh]}
        out = {"kinds": [type(live).__name__, type(fresh).__name__]}
        out["areas"] = [None if isinstance(x, (EmptyShape, WholeShape)) else x.__float__() for x in (live, fresh)]
        out["_regs"] = [geom.region_of_shape(live), geom.region_of_shape(fresh)]
        return out

    def oblige(self, tr, out):
        T, Fl = z3.BoolVal(True), z3.BoolVal(False)
        if "bool" in out:
            return [("a query answers differently after another query", Fl if out["bool"][0] == out["bool"][1] else T, {})]
        xs = [Sym.var(i, 0) for i in range(3)]
        px, py = xs[1], xs[2]
        a0, a1 = out["areas"]
        if out["kinds"][0] != out["kinds"][1] or (a0 is None) != (a1 is None):
            f = T
        elif a0 is None:
            f = Fl
        else:
            f = diff_formula(a0, a1)  # z3 condition over t under which the two areas differ (None: identical polynomials)
            f = Fl if f is None else f
        obs = [("an operator gives a different kind or area after another operator on the same operands", f, {"kinds": out["kinds"]})]
        r0, r1 = out["_regs"]
        polys = R.polys_of(r0) + R.polys_of(r1)
        obs.append(("an operator gives a different region after another operator on the same operands", z3.And(R.z_off_boundary(px, py, polys), R.z_in(r0, px, py) != R.z_in(r1, px, py)), {}))
        return obs

    def on_raise(self, exc, func, line):
        return None

    def confirm(self, name, xs, outcome, exc):
        if outcome is None:
            return False, str(exc)
        desc = f"A={self.A}, B={self.B}+({3*xs[0]}, {xs[0]}): {self.q2} after {self.q1}"
        if "bool" in outcome:
            return outcome["bool"][0] != outcome["bool"][1], desc + f" gives {outcome['bool'][0]}, on fresh operands {outcome['bool'][1]}"
        if "kind or area" in name:
            a0, a1 = outcome["areas"]
            same_area = (a0 is None and a1 is None) or (a0 is not None and a1 is not None and val(a0) == val(a1))
            return not (outcome["kinds"][0] == outcome["kinds"][1] and same_area), desc + f": kinds {outcome['kinds']} areas {outcome['areas']}"
        p = (xs[1], xs[2])
        r0, r1 = [geom.concrete_region(r) for r in outcome["_regs"]]
        return R.x_in(r0, p) != R.x_in(r1, p), desc + f": p={p} in live result {R.x_in(r0, p)}, in fresh result {R.x_in(r1, p)}"

    def signature(self, name, xs, outcome, exc):
        from checks.boolops import near_contact_d2

        pa = R.polys_of(geom.region_of_name(self.A))
        pb = R.polys_of(geom.region_of_name(self.B, 3 * xs[0], xs[0]))
        d2 = near_contact_d2(pa, pb)
        return {"name": name.split(" after")[0], "near_contact_1e-5": bool(d2 is not None and d2 < F(1, 10**10)), "boundaries_transversal": bool(R.x_transversal(pa, pb))}


def specs(tier):
    Mo = "checks.c10"
    out = []
    hists = [["float", "scale", "float"], ["in", "rotate", "move"], ["float", "move", "invert"], ["or", "move", "sub"], ["box", "scale_xy", "in"], ["split", "float", "scale"], ["contains", "move", "float"], ["float", "scale_neg", "in"]]
    if tier != "quick":
        hists += [["eq", "scale", "contains"], ["xor", "rotate", "float"], ["float", "invert", "scale"], ["sub", "scale", "xor"], ["in", "scale_xy", "rotate"], ["contains", "move", "or"]]
    shapes = [("penta", "unit"), ("hollow", "unit")] if tier == "quick" else [("penta", "unit"), ("hollow", "unit"), ("two", "square"), ("inv:ell", "unit"), ("opring", "tri")]
    for s, o in shapes:
        for h in hists:
            out.append(dict(module=Mo, scenario="HistLive", params=dict(shape=s, other=o, history=h), time_budget=55 if tier == "quick" else 600))
    qs = [("sub", "bus"), ("sub", "xor"), ("or", "and"), ("in", "or"), ("and", "in"), ("xor", "eq")] + ([("or", "sub"), ("bus", "sub"), ("eq", "and"), ("ni", "xor")] if tier != "quick" else [])
    for A, B in [("square", "unit")] + ([("tri", "unit"), ("hollow2", "unit")] if tier != "quick" else []):
        for q1, q2 in qs:
            out.append(dict(module=Mo, scenario="Disturb", params=dict(A=A, B=B, q1=q1, q2=q2), time_budget=55 if tier == "quick" else 600))
    return out


def main(tier, seed):
    from checks.common import Runner

    r = Runner("C10", tier, seed)
    r.run_specs(specs(tier))
    return r.finish(
        explanation="Histories of length 3 over {move, scale, rotate(3-4-5), invert, float, in, box, |, -, ^, ==, in(shape), split} with symbolic transformation parameters: "
        "after every prefix the live object's answers (area, first moment, signed lengths, orientation, box, point containment closed/open, kind) must be identical "
        "(polynomial / algebraic identity on the whole path cell) to those of a deep copy taken at that moment; and a second question asked after a first one on the same "
        "operands (which the first may have split in place) must give the same kind, area and region (z3, query point free) as on fresh operands.",
        assumptions=["PYTHONHASHSEED / new-process determinism is not a solver question: outside", "module-level memo tables: each job starts cold and re-uses them across paths"],
    )
