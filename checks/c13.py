"""C13 Rational input gives exact rational output."""
from __future__ import annotations

from fractions import Fraction as F

import z3

from checks import geom
from checks.boolops import BoolExpr, expr_str
from shapepy import EmptyShape, IntegrateShape, JordanCurve, WholeShape
from symx.core import Sym


def walk_numbers(x, out):
    if isinstance(x, dict):
        for k, v in x.items():
            if not str(k).startswith("_"):
                walk_numbers(v, out)
    elif isinstance(x, (list, tuple)):
        for v in x:
            walk_numbers(v, out)
    elif isinstance(x, (bool, str)) or x is None:
        pass
    else:
        out.append(x)
    return out


BIGA = [(0, 0), (40009, 0), (40013, 30011), (3, 30029)]
BIGB = [(10007, -5003), (50021, 10009), (20011, 45007)]


# rational vertices whose denominators (~1e5, stored unchanged) are pairwise coprime: differences of coordinates have denominators ~1e10
FRACA = [(F(1, 100003), F(0)), (F(2), F(0)), (F(1, 100019), F(1))]
FRACB = [(F(-1), F(1, 3)), (F(1, 2), F(1, 2)), (F(-1), F(1))]


class BigCross:
    """crossing parameters and result vertices for polygons with 5-digit coordinates in general position (the exact
    crossing parameters have denominators above 10^9): B translated by the symbolic t*(3, 1)"""

    nfree = 0
    max_degree = 2
    replay_any_denominator = True

    def __init__(self, which="int"):
        self.which = which
        self.names = ["t"]

    def domain(self, xs):
        return [xs[0] >= -100, xs[0] <= 100] if self.which == "int" else [xs[0] >= F(-1, 10), xs[0] <= F(1, 10)]

    def extra_envs(self):
        if self.which == "frac":
            return [[F(0)], [F(1, 100)], [F(-1, 37)], [F(1, 100043)]]
        return [[F(1, 3)], [F(7, 11)], [F(-5, 13)], [F(10**6 + 3, 10**6)], [F(37, 10**4 + 7)]]

    def run(self, xs):
        from shapepy import JordanCurve

        t = xs[0]
        A, B = (BIGA, BIGB) if self.which == "int" else (FRACA, FRACB)
        ja = JordanCurve.from_vertices(A)
        jb = JordanCurve.from_vertices([(x + 3 * t, y + t) for x, y in B])
        inter = [[a, b, u, v] for a, b, u, v in ja.intersection(jb) if u is not None]
        return {"crossings": inter}

    def oblige(self, tr, out):
        nums = walk_numbers(out, [])
        bad = [n for n in nums if not geom.numtype_ok(n)]
        return [("a Python float entered an output value", z3.BoolVal(bool(bad)), {})]

    def on_raise(self, exc, func, line):
        return None

    def confirm(self, name, xs, outcome, exc):
        if outcome is None:
            return False, str(exc)
        nums = walk_numbers(outcome, [])
        bad = [n for n in nums if not geom.numtype_ok(n)]
        return bool(bad), f"big-coordinate crossing at t={xs[0]}: {[repr(b) for b in bad[:3]]}"

    def signature(self, name, xs, outcome, exc):
        return {"name": "float in exact output"}


class ExactOps(BoolExpr):
    """result vertices, area, first moments and the crossing parameters of the two boundaries
    must be exact values on every path: no Python float may have entered them"""

    nfree = 0

    def __init__(self, A, B, expr, **kw):
        super().__init__(A, B, expr, **kw)
        self.names = ["t"]

    def extra(self, out, Rs, env, xs):
        if not isinstance(Rs, (EmptyShape, WholeShape)):
            out["area"] = IntegrateShape.area(Rs)
            out["m10"] = IntegrateShape.polynomial(Rs, 1, 0)
            out["m02"] = IntegrateShape.polynomial(Rs, 0, 2)
        fresh = self.operands(xs)
        ja, jb = fresh["A"].jordans[0], fresh["B"].jordans[0]
        out["crossings"] = [[a, b, u, v] for a, b, u, v in ja.intersection(jb) if u is not None]

    def oblige(self, tr, out):
        nums = walk_numbers({k: v for k, v in out.items()}, [])
        bad = [n for n in nums if not geom.numtype_ok(n)]
        return [("a Python float entered an output value", z3.BoolVal(bool(bad)), {"n_values": len(nums), "bad": [repr(b) for b in bad[:3]]})]

    def on_raise(self, exc, func, line):
        return None

    def on_budget(self):
        return None

    def confirm(self, name, xs, outcome, exc):
        if outcome is None:
            return False, f"plain run raised {exc}"
        nums = walk_numbers(outcome, [])
        bad = [n for n in nums if not geom.numtype_ok(n)]
        return bool(bad), f"{expr_str(self.expr)} A={self.A} B={self.B}+({self.shift(xs)[0]}, {self.shift(xs)[1]}): non-exact output values {[repr(b) for b in bad[:4]]}"

    def signature(self, name, xs, outcome, exc):
        return {"name": "float in exact output"}


class ExactTransform:
    """move / scale of a catalogue shape by symbolic rational parameters: coordinates stay exact"""

    nfree = 0

    def __init__(self, shape, what):
        self.shape, self.what = shape, what
        self.names = ["a", "b"]

    def domain(self, xs):
        if self.what == "scale":
            return [xs[0] >= F(1, 100), xs[0] <= 100, xs[1] >= F(1, 100), xs[1] <= 100]
        return [xs[0] >= -100, xs[0] <= 100, xs[1] >= -100, xs[1] <= 100]

    def run(self, xs):
        S = geom.make(self.shape)
        r = S.move(xs[0], xs[1]) if self.what == "move" else S.scale(xs[0], xs[1])
        return {"same_object": r is S, "R": geom.describe(S), "area": IntegrateShape.area(S)}

    def oblige(self, tr, out):
        nums = walk_numbers(out, [])
        bad = [n for n in nums if not geom.numtype_ok(n)]
        return [("a Python float entered an output value", z3.BoolVal(bool(bad)), {"n_values": len(nums)})]

    def on_raise(self, exc, func, line):
        return "transformation raised " + exc

    def confirm(self, name, xs, outcome, exc):
        if name.startswith("transformation raised"):
            return exc is not None, str(exc)
        if outcome is None:
            return False, f"plain run raised {exc}"
        nums = walk_numbers(outcome, [])
        bad = [n for n in nums if not geom.numtype_ok(n)]
        return bool(bad), f"{self.what}({xs[0]}, {xs[1]}) of {self.shape}: non-exact output values {[repr(b) for b in bad[:4]]}"

    def signature(self, name, xs, outcome, exc):
        return {"name": "float in exact output"}


class CapWitness:
    """regression witnesses of the repaired defect `limit_denominator(1e9)` (fix 4b00205) and of
    the documented cap: concrete coordinates around the 1e9 denominator bound (no symbolic
    input: a single path; kept so that the repaired defect is reported again if it returns)"""

    nfree = 0
    names = []
    CASES = [(F(1, 10**9 + 7), F(1, 3)), (F(10**9 + 1, 10**9 + 7), F(-5, 10**9 + 9)), (F(1, 10**9), F(10**9 - 1, 10**9)), (F(123456789, 999999937), F(2, 7)),
             (F(3, 10**12 + 39), F(10**12 + 39, 3))]

    def __init__(self):
        pass

    def run(self, xs):
        from shapepy import Point2D

        res = []
        for x, y in self.CASES:
            p = Point2D(x, y)
            q = (p + Point2D(1, 1)) * F(1, 2)
            res.append({"stored": [p[0], p[1]], "derived": [q[0], q[1]], "in": [x, y]})
        return {"cases": res}

    def _bad(self, out):
        bad = []
        for c in out["cases"]:
            for v in c["stored"] + c["derived"]:
                if not geom.numtype_ok(v):
                    bad.append(("malformed", repr(v)))
            for s, x in zip(c["stored"], c["in"]):
                if x.denominator <= 10**9 and geom.numtype_ok(s) and s != x:
                    bad.append(("changed", repr(x), repr(s)))
                if geom.numtype_ok(s) and isinstance(s, F) and s.denominator > 10**9:
                    bad.append(("cap exceeded", repr(s)))
        return bad

    def oblige(self, tr, out):
        return [("coordinate storage breaks the exact-rational contract", z3.BoolVal(bool(self._bad(out))), {})]

    def on_raise(self, exc, func, line):
        return "Point2D arithmetic raised " + exc

    def confirm(self, name, xs, outcome, exc):
        if name.startswith("Point2D arithmetic raised"):
            return exc is not None, str(exc)
        if outcome is None:
            return True, f"plain run raised {exc}"
        bad = self._bad(outcome)
        return bool(bad), f"Point2D storage: {bad[:3]}"

    def signature(self, name, xs, outcome, exc):
        return {"name": "coordinate storage"}


def specs(tier):
    out = []
    pairs = [("square", "square"), ("tri", "unit")] if tier == "quick" else [("square", "square"), ("tri", "unit"), ("hollow2", "square"), ("penta", "quad"), ("two", "square"), ("ell", "tri")]
    for A, B in pairs:
        for op in ["|", "&", "-"] + (["^"] if tier != "quick" else []):
            out.append(dict(module="checks.c13", scenario="ExactOps", params=dict(A=A, B=B, expr=[op, "A", "B"]), time_budget=None if tier == "quick" else 2400))
    out.append(dict(module="checks.c13", scenario="CapWitness", params={}))
    out.append(dict(module="checks.c13", scenario="BigCross", params={}))
    out.append(dict(module="checks.c13", scenario="BigCross", params=dict(which="frac")))
    for s in ["penta", "hollow", "two"] + (["inv:two", "ell", "framedot"] if tier != "quick" else []):
        for w in ("move", "scale"):
            out.append(dict(module="checks.c13", scenario="ExactTransform", params=dict(shape=s, what=w)))
    return out


def main(tier, seed):
    from checks.common import Runner, load_known, sig_matches

    r = Runner("C13", tier, seed)
    r.exact_compare = True
    r.run_specs(specs(tier))
    r.inexact_to_violations()
    return r.finish(
        explanation="(i) kind tracking on every path of the operator / intersection / integral / move / scale explorations: a value into which a "
        "Python float entered is tagged, and z3-explored path conditions cover all parameter values; (ii) every path witness is replayed on "
        "real Fractions and each output value is compared *exactly* with the exact rational of the symbolic run and type-checked.",
        assumptions=["polygonal catalogue shapes; 1-2 symbolic reals", "(ii) is a per-cell witness comparison, not an all-values verdict (the denominator cap of Point2D dispatches on the concrete type)"],
        coverage_extra=dict(exact_value_comparisons=r.replayed, inexact_stored_values=len(r.inexact)),
    )
