"""C06 Results are canonical, well-formed shapes; empty/whole are the singletons."""
from __future__ import annotations

from fractions import Fraction as F

import z3

from checks import geom
from checks.boolops import BoolExpr, ev_shape, expr_str, totuple
from oracles import region as R
from shapepy import ConnectedShape, DisjointShape, EmptyShape, SimpleShape, WholeShape
from symx.core import Sym

EPS = F(1, 10**9)  # Point2D.__eq__: the library's own notion of equal points

INV_KIND = {"Empty": {"Whole"}, "Whole": {"Empty"}, "Simple": {"Simple"}, "Connected": {"Disjoint"}, "Disjoint": {"Connected", "Disjoint"}}


def structure(S):
    """identity-level facts of a result that describe() does not carry"""
    if isinstance(S, (EmptyShape, WholeShape)):
        return {"closed_by_identity": True, "njordans": 0}
    ok = True
    for j in S.jordans:
        segs = j.segments
        n = len(segs)
        for i in range(n):
            if segs[i].ctrlpoints[-1] is not segs[(i + 1) % n].ctrlpoints[0]:
                ok = False
    st = {"closed_by_identity": ok, "njordans": len(S.jordans)}
    if isinstance(S, SimpleShape):
        st["simple_one_boundary"] = len(S.jordans) == 1
    if isinstance(S, ConnectedShape):
        st["sub_kinds"] = [type(s).__name__ for s in S.subshapes]
    if isinstance(S, DisjointShape):
        st["sub_kinds"] = [type(s).__name__ for s in S.subshapes]
        st["ncomponents"] = len(S.subshapes)
    return st


class WellFormed(BoolExpr):
    def extra(self, out, Rs, env, xs):
        out["structure"] = structure(Rs)
        inv = ~Rs
        out["inv_kind"] = geom.describe(inv)["kind"]
        out["_inv_reg"] = geom.region_of_shape(inv)

    def oblige(self, tr, out):
        n = len(self.names)
        xs = [Sym.var(i, 0) for i in range(n)]
        return self.more_obligations(tr, out, xs)

    def on_raise(self, exc, func, line):
        return None  # "returns at all" is C01's statement; C06 speaks about what is returned

    def on_budget(self):
        return None

    def more_obligations(self, tr, out, xs):
        px, py = xs[-2], xs[-1]
        obs = []
        d = out["R"]
        st = out["structure"]
        T, Fls = z3.BoolVal(True), z3.BoolVal(False)
        obs.append(("chain not closed by shared junction points", Fls if st["closed_by_identity"] else T, {}))
        kind = d["kind"]
        obs.append(("kind of ~result contradicts the documented table", Fls if out["inv_kind"] in INV_KIND[kind] else T, {"kind": kind, "inv": out["inv_kind"]}))
        if kind in ("Empty", "Whole"):
            obs.append(("empty/whole result is not the singleton", Fls if d["is_singleton"] else T, {}))
            return obs
        reg = out["_reg"]
        polys = R.polys_of(reg)
        zero, cross, degen = [], [], []
        for vs in polys:
            n = len(vs)
            a2 = geom.signed_area2(vs)
            degen.append(R.zb(a2 == 0))
            for i in range(n):
                a, b = vs[i], vs[(i + 1) % n]
                dx, dy = b[0] - a[0], b[1] - a[1]
                zero.append(R.zand(dx <= EPS, -dx <= EPS, dy <= EPS, -dy <= EPS))
        allv = [(k, i) for k, vs in enumerate(polys) for i in range(len(vs))]
        for x in range(len(allv)):
            for y in range(x + 1, len(allv)):
                (k1, i1), (k2, i2) = allv[x], allv[y]
                n1, n2 = len(polys[k1]), len(polys[k2])
                if k1 == k2 and ((i1 + 1) % n1 == i2 or (i2 + 1) % n1 == i1):
                    continue
                cross.append(R.z_proper_cross(polys[k1][i1], polys[k1][(i1 + 1) % n1], polys[k2][i2], polys[k2][(i2 + 1) % n2]))
        obs.append(("zero-length boundary piece", z3.Or(zero), {}))
        obs.append(("zero-area boundary curve", z3.Or(degen), {}))
        if cross:
            obs.append(("boundary curves cross (self-crossing or mutual)", z3.Or(cross), {}))
        # kind structure
        if kind == "Simple":
            obs.append(("SimpleShape with several boundaries", Fls if st.get("simple_one_boundary") else T, {}))
        def connected_bad(creg):
            subs = creg[1]
            pos = [s for s in subs if s[2]]
            neg = [s for s in subs if not s[2]]
            bad = []
            if len(pos) > 1:
                bad.append(T)
            for h in neg:
                for v in h[1]:
                    if pos:
                        # every hole vertex in the closure of the outer region
                        bad.append(z3.And(z3.Not(R.z_in(pos[0], v[0], v[1])), z3.Not(R.z_on_boundary(v[0], v[1], [pos[0][1]]))))
                    for h2 in neg:
                        if h2 is not h:
                            # ... and not strictly inside another hole's bounded side
                            inside_hole = z3.Not(R.z_in(h2, v[0], v[1]))  # h2 is cw: region = outside; not in = inside the hole (or on it)
                            bad.append(z3.And(inside_hole, z3.Not(R.z_on_boundary(v[0], v[1], [h2[1]]))))
            return bad

        if kind == "Connected":
            bad = connected_bad(reg)
            obs.append(("ConnectedShape is not one outer/unbounded region minus separate holes", z3.Or(bad) if bad else Fls, {}))
        if kind == "Disjoint":
            bad = []
            for sub in reg[1]:
                if sub[0] == "and":
                    bad += connected_bad(sub)
            obs.append(("ConnectedShape is not one outer/unbounded region minus separate holes", z3.Or(bad) if bad else Fls, {}))
        if kind == "Disjoint":
            subs = reg[1]
            bad = [T] if len(subs) < 2 else []
            off = R.z_off_boundary(px, py, polys)
            for i in range(len(subs)):
                for j in range(i + 1, len(subs)):
                    bad.append(z3.And(off, R.z_in(subs[i], px, py), R.z_in(subs[j], px, py)))
            obs.append(("DisjointShape components overlap", z3.Or(bad), {}))
        return obs

    def confirm_more(self, name, xs, outcome, exc):
        d = outcome["R"]
        st = outcome["structure"]
        base = f"{expr_str(self.expr)} A={self.A} B={self.B}+({self.shift(xs)[0]}, {self.shift(xs)[1]}): result {outcome['R'] if d['kind'] in ('Empty','Whole') else d['kind']}"
        if name == "chain not closed by shared junction points":
            return (not st["closed_by_identity"]), base
        if name == "kind of ~result contradicts the documented table":
            return outcome["inv_kind"] not in INV_KIND[d["kind"]], base + f" ~result is {outcome['inv_kind']}"
        if name == "empty/whole result is not the singleton":
            return not d.get("is_singleton", True), base
        if name == "SimpleShape with several boundaries":
            return not st.get("simple_one_boundary", True), base
        reg = geom.concrete_region(outcome["_reg"])
        polys = R.polys_of(reg)
        if name == "zero-length boundary piece":
            for vs in polys:
                for i in range(len(vs)):
                    a, b = vs[i], vs[(i + 1) % len(vs)]
                    if abs(b[0] - a[0]) <= EPS and abs(b[1] - a[1]) <= EPS:
                        return True, base + f" has a piece {a} -> {b}"
            return False, base
        if name == "zero-area boundary curve":
            for vs in polys:
                if R.x_signed_area2(vs) == 0:
                    return True, base + f" has a boundary of zero area {vs}"
            return False, base
        if name.startswith("boundary curves cross"):
            allv = [(k, i) for k, vs in enumerate(polys) for i in range(len(vs))]
            for x in range(len(allv)):
                for y in range(x + 1, len(allv)):
                    (k1, i1), (k2, i2) = allv[x], allv[y]
                    n1, n2 = len(polys[k1]), len(polys[k2])
                    if k1 == k2 and ((i1 + 1) % n1 == i2 or (i2 + 1) % n1 == i1):
                        continue
                    e = (polys[k1][i1], polys[k1][(i1 + 1) % n1], polys[k2][i2], polys[k2][(i2 + 1) % n2])
                    if R.x_proper_cross(*e):
                        return True, base + f" edges {e[0]}-{e[1]} and {e[2]}-{e[3]} cross"
            return False, base
        if name.startswith("ConnectedShape is not"):
            cregs = [reg] if d["kind"] == "Connected" else [r for r in reg[1] if r[0] == "and"]
            for creg in cregs:
                subs = creg[1]
                pos = [s for s in subs if s[2]]
                neg = [s for s in subs if not s[2]]
                if len(pos) > 1:
                    return True, base + " has two outer boundaries"
                for h in neg:
                    for v in h[1]:
                        if pos and not R.x_in(pos[0], v) and R.x_dist2_boundary(v, [pos[0][1]]) != 0:
                            return True, base + f": hole vertex {v} outside the outer boundary"
                        for h2 in neg:
                            if h2 is not h and not R.x_in(h2, v) and R.x_dist2_boundary(v, [h2[1]]) != 0:
                                return True, base + f": hole vertex {v} inside another hole"
            return False, base
        if name == "DisjointShape components overlap":
            subs = reg[1]
            if len(subs) < 2:
                return True, base + " has fewer than two components"
            p = (xs[-2], xs[-1])
            n = sum(1 for s in subs if R.x_in(s, p))
            return n >= 2, base + f": p={p} lies in {n} components"
        return False, "unknown obligation " + name

    def signature(self, name, xs, outcome, exc):
        sig = BoolExpr.signature(self, name, xs, outcome, exc)
        return sig


class SingletonLaw(BoolExpr):
    """S|~S, S&~S, S-S, S^S, S^~S for a catalogue S translated symbolically: the result must be
    *the* Whole/Empty singleton on every path"""

    nfree = 0
    LAWS = {"S|~S": (("|", "B", ("~", "B")), "Whole"), "S&~S": (("&", "B", ("~", "B")), "Empty"), "S-S": (("-", "B", "B"), "Empty"),
            "S^S": (("^", "B", "B"), "Empty"), "S^~S": (("^", "B", ("~", "B")), "Whole"), "~S|S": (("|", ("~", "B"), "B"), "Whole"),
            "S-S(copy)": (("-", "B", "B2"), "Empty"), "S^S(copy)": (("^", "B", "B2"), "Empty")}

    def __init__(self, S, law, history=False, **kw):
        super().__init__("unit", S, "B", **kw)
        self.S = S
        self.law = law
        self.history = history
        self.names = ["t"]

    def run(self, xs):
        env = self.operands(xs)
        tx, ty = self.shift(xs)
        env["B2"] = geom.make(self.B, tx, ty)
        if self.history:  # the law must also hold for a shape that was used before and then moved in place
            for key in ("B", "B2"):
                try:
                    env[key] | env["A"]
                    env[key] in env["A"]
                except Exception:  # the earlier use is only there to warm caches; its own failures are C01's subject
                    pass
                env[key].move(40, 0)
        e, want = self.LAWS[self.law]
        Rs = ev_shape(e, env)
        return {"R": geom.describe(Rs) if isinstance(Rs, (EmptyShape, WholeShape)) else {"kind": geom.describe(Rs)["kind"]}, "want": want}

    def oblige(self, tr, out):
        ok = out["R"]["kind"] == out["want"] and out["R"].get("is_singleton")
        return [("singleton law", z3.BoolVal(not ok), {"law": self.law})]

    def raise_formula(self, tr):
        return None

    def on_raise(self, exc, func, line):
        return f"operator raised {exc}"

    def confirm(self, name, xs, outcome, exc):
        t = self.shift(xs)
        if name.startswith("operator raised") or name.startswith("operator did not"):
            return exc is not None, f"{self.law} with S={self.S}+({t[0]}, {t[1]}) raised {exc}"
        if outcome is None:
            return False, f"plain run raised {exc}"
        ok = outcome["R"]["kind"] == outcome["want"] and outcome["R"].get("is_singleton")
        return not ok, f"{self.law} with S={self.S}+({t[0]}, {t[1]}) returned {outcome['R']} instead of the {outcome['want']} singleton"

    def signature(self, name, xs, outcome, exc):
        sig = {"name": "singleton law" if name == "singleton law" else "operator", "law": self.law, "S": self.S}
        if exc:
            sig["exc"] = exc["exc"]
            sig["func"] = exc["where"][1]
        return sig


def F_(a, b):
    return str(F(a, b))


def specs(tier):
    out = []
    OPS = ["|", "&", "-", "^"]
    pairs = [("square", "square"), ("tri", "unit")] if tier == "quick" else [("square", "square"), ("tri", "unit"), ("hollow2", "square"), ("penta", "quad"), ("two", "square"), ("inv:square", "unit"), ("ell", "tri"), ("hollow", "ell"), ("inv:two", "tri")]
    for A, B in pairs:
        for op in OPS:
            out.append(dict(module="checks.c06", scenario="WellFormed", params=dict(A=A, B=B, expr=[op, "A", "B"]), time_budget=None if tier == "quick" else 2400))
    shapes = ["square", "tri", "cw:penta", "hollow2", "two", "framedot"] if tier == "quick" else ["square", "tri", "penta", "cw:penta", "ell", "you", "quad", "hollow", "hollow2", "two", "inv:two", "inv:hollow", "framedot"]
    for S in shapes:
        for law in SingletonLaw.LAWS:
            out.append(dict(module="checks.c06", scenario="SingletonLaw", params=dict(S=S, law=law)))
    for S in shapes[:2] if tier == "quick" else shapes:
        for law in ("S-S", "S|~S", "S^S"):
            out.append(dict(module="checks.c06", scenario="SingletonLaw", params=dict(S=S, law=law, history=True)))
    out.append(dict(module="checks.c06", scenario="WellFormed", params=dict(A="hollow", B="tinyring", expr=["|", "A", "B"], lim=F_(1, 20)), time_budget=None if tier == "quick" else 2400))
    # results with quadratic sides: concrete placements, query point free (checks/curvedops.py)
    from checks.curvedops import CONFIGS

    keep = {("lens", "slab", "3/2"), ("lens", "sq1", "3/2"), ("pill", "slab", "1"), ("blob", "sq2", "-1"), ("dome", "sq2", "1"), ("blob", "lens", "0")}
    for A, B, sh, sc in CONFIGS:
        if tier == "quick" and (A, B, sh[0]) not in keep:
            continue
        for op in OPS:
            out.append(dict(module="checks.curvedops", scenario="CurvedOps", params=dict(A=A, B=B, op=op, shift=list(sh), scaleB=str(sc), num="float", wf=True), time_budget=600))
    return out


def main(tier, seed):
    from checks.common import Runner

    r = Runner("C06", tier, seed)
    from checks import xhair

    xhair.attach(r, ["rotation_is_recognised", "non_rotation_is_rejected", "filter_rotations_keeps_one_per_class"], "C06")
    r.run_specs(specs(tier))
    return r.finish(
        explanation="Real operators under SYMX (B translated symbolically); per path z3 decides over the whole cell: no zero-length piece "
        "(the library's 1e-9 point equality), no zero-area curve, no proper crossing among the result's edges, Connected = one outer/unbounded "
        "boundary with separate holes inside, Disjoint components pairwise disjoint (query point free), ~result kind per the documented table, "
        "junctions shared by identity; plus the five singleton laws for catalogue shapes translated symbolically.",
        assumptions=["polygonal catalogue pairs, 1 symbolic real"],
    )
