"""entry point:  python -m checks.run <property-id> [--tier quick|thorough] [--replay file]"""
import argparse
import importlib
import os
import sys


def main():
    ap = argparse.ArgumentParser()
    ap.add_argument("prop")
    ap.add_argument("--tier", default=os.environ.get("VERIF_TIER", "quick"))
    ap.add_argument("--replay")
    a = ap.parse_args()
    seed = int(os.environ.get("VERIF_SEED", "0") or 0)
    if a.replay:
        from checks.replay import replay_file

        sys.exit(replay_file(a.replay))
    mod = importlib.import_module("checks." + a.prop.lower())
    sys.exit(mod.main(a.tier, seed))


if __name__ == "__main__":
    main()
