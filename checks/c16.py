"""C16 Primitive factories build the documented positive shapes or raise ValueError."""
from __future__ import annotations

import math
from fractions import Fraction as F

import z3

from checks import geom
from checks.c17 import same_num
from oracles import bezier as BZ
from oracles import moments as M
from oracles import region as R
from shapepy import IntegrateShape, Primitive, SimpleShape
from symx.core import Sym, val, zterm


def _neq(a, b):
    d = a - b
    return R.zb(d != 0) if isinstance(d, Sym) else z3.BoolVal(d != 0)


class Poly4:
    """square / triangle / regular_polygon(4) / polygon with symbolic size and centre"""

    nfree = 0

    def __init__(self, what, valid=True):
        self.what, self.valid = what, valid
        self.names = ["a", "cx", "cy"]

    def domain(self, xs):
        if self.valid:
            return [xs[0] >= F(1, 10**6), xs[0] <= 10**6, xs[1] >= -(10**6), xs[1] <= 10**6, xs[2] >= -(10**6), xs[2] <= 10**6]
        return [xs[0] <= 0, xs[0] >= -(10**6)]

    def seed(self):
        return [F(2), F(1, 3), F(-1, 2)] if self.valid else [F(-1), F(0), F(0)]

    def expected(self, xs):
        a, cx, cy = xs
        if self.what == "square":
            h = a / 2
            return [(cx + h, cy + h), (cx - h, cy + h), (cx - h, cy - h), (cx + h, cy - h)], a * a
        if self.what == "triangle":
            return [(cx, cy), (cx + a, cy), (cx, cy + a)], a * a / 2
        if self.what == "regular4":
            return [(cx + a, cy), (cx, cy + a), (cx - a, cy), (cx, cy - a)], 2 * a * a
        if self.what == "polygon_ccw":
            return [(cx, cy), (cx + 2 * a, cy), (cx + a, cy + 3 * a)], 3 * a * a
        if self.what == "polygon_cw":
            return [(cx, cy), (cx + a, cy + 3 * a), (cx + 2 * a, cy)], -3 * a * a
        raise ValueError(self.what)

    def build(self, xs):
        a, c = xs[0], (xs[1], xs[2])
        if self.what == "square":
            return Primitive.square(a, c)
        if self.what == "triangle":
            return Primitive.triangle(a, c)
        if self.what == "regular4":
            return Primitive.regular_polygon(4, a, c)
        return Primitive.polygon(self.expected(xs)[0])

    def run(self, xs):
        S = self.build(xs)
        return {"simple": type(S) is SimpleShape, "v": [list(p) for p in geom.jordan_vertices(S.jordans[0])], "area": IntegrateShape.area(S), "float": S.__float__(),
                "ccw": bool(S.jordans[0].__float__() > 0), "center_in": bool((xs[1], xs[2]) in S) if self.what in ("square", "regular4") else None,
                "far_out": not bool((xs[1] + 10**7, xs[2]) in S)}

    def oblige(self, tr, out):
        T, Fl = z3.BoolVal(True), z3.BoolVal(False)
        if not self.valid:
            return [("invalid size accepted", T, {})]
        xs = [Sym.var(i, 0) for i in range(3)]
        ev, ea = self.expected(xs)
        bad = [z3.BoolVal(len(out["v"]) != len(ev) or not out["simple"])]
        if len(out["v"]) == len(ev):
            for g, w in zip(out["v"], ev):
                bad += [_neq(g[0], w[0]), _neq(g[1], w[1])]
        obs = [("vertices are not the documented ones (in the documented order)", z3.Or(bad), {}),
               ("area is not the closed form", z3.Or(_neq(out["area"], ea), _neq(out["float"], ea)), {})]
        want_ccw = self.what != "polygon_cw"
        ok = out["ccw"] == want_ccw and (out["far_out"] == want_ccw) and (out["center_in"] in (None, True))
        obs.append(("orientation / centre inside / far point outside wrong", Fl if ok else T, {}))
        return obs

    def on_raise(self, exc, func, line):
        if not self.valid and exc == "ValueError":
            return None
        return "factory raised " + exc

    def confirm(self, name, xs, outcome, exc):
        desc = f"{self.what}(size={xs[0]}, center=({xs[1]}, {xs[2]}))"
        if name.startswith("factory raised"):
            return exc is not None and not (not self.valid and exc["exc"] == "ValueError"), desc + f": {exc}"
        if outcome is None:
            return False, str(exc)
        if name == "invalid size accepted":
            return True, desc + " returned a shape"
        ev, ea = self.expected(xs)
        if name.startswith("vertices"):
            return [tuple(map(val, p)) for p in outcome["v"]] != ev or not outcome["simple"], desc + f": {[[str(a) for a in p] for p in outcome['v']]}"
        if name.startswith("area"):
            return val(outcome["area"]) != ea or val(outcome["float"]) != ea, desc + f": area {outcome['area']} expected {ea}"
        want_ccw = self.what != "polygon_cw"
        ok = outcome["ccw"] == want_ccw and (outcome["far_out"] == want_ccw) and (outcome["center_in"] in (None, True))
        return not ok, desc + f": {outcome['ccw']}, {outcome['far_out']}, {outcome['center_in']}"

    def signature(self, name, xs, outcome, exc):
        return {"name": name.split(" raised")[0], "what": self.what}


class Circle:
    """circle(radius, centre, ndivangle) with symbolic radius and centre: ndivangle quadratic arcs whose
    end points lie on the circle, the whole curve within the quadratic-approximation band, area = a_n r^2
    with pi <= a_n <= pi (1 + delta_n)^2"""

    nfree = 0
    ob_timeout_ms = 60000

    def __init__(self, n):
        self.n = n
        self.names = ["r", "cx", "cy", "t"]

    def domain(self, xs):
        return [xs[0] >= F(1, 1000), xs[0] <= 1000, xs[1] >= -1000, xs[1] <= 1000, xs[2] >= -1000, xs[2] <= 1000, xs[3] >= 0, xs[3] <= 1]

    def seed(self):
        return [F(2), F(1, 3), F(-1, 2), F(1, 2)]

    def run(self, xs):
        S = Primitive.circle(xs[0], (xs[1], xs[2]), self.n)
        J = S.jordans[0]
        segs = [[(p[0], p[1]) for p in s.ctrlpoints] for s in J.segments]
        shared = all(J.segments[i].ctrlpoints[-1] is J.segments[(i + 1) % len(J.segments)].ctrlpoints[0] for i in range(len(J.segments)))
        return {"simple": type(S) is SimpleShape, "nseg": len(segs), "degrees": [s.degree for s in J.segments], "shared": shared, "area": IntegrateShape.area(S),
                "ccw": bool(J.__float__() > 0), "_segs": segs}

    def band(self):
        al = math.pi / self.n
        d = (math.cos(al) + 1 / math.cos(al)) / 2 - 1
        return F(d) + F(1, 10**9)

    def oblige(self, tr, out):
        T, Fl = z3.BoolVal(True), z3.BoolVal(False)
        r, cx, cy, t = [Sym.var(i, 0) for i in range(4)]
        obs = [("not ndivangle shared quadratic arcs, counter-clockwise", Fl if out["simple"] and out["nseg"] == self.n and out["degrees"] == [2] * self.n and out["shared"] and out["ccw"] else T, {})]
        if out["degrees"] != [2] * self.n:
            return obs
        dl = self.band()
        lo, hi = (1 - F(1, 10**9)) ** 2, (1 + dl) ** 2
        outside = []
        for s in out["_segs"]:
            x = BZ.bernstein([p[0] for p in s], t) - cx
            y = BZ.bernstein([p[1] for p in s], t) - cy
            d2 = x * x + y * y
            outside.append(R.zor(d2 < lo * r * r, d2 > hi * r * r))
        obs.append(("a point of the circle leaves the quadratic-approximation band around radius r", z3.Or(outside), {"delta": float(dl)}))
        a = out["area"]
        PI_LO, PI_HI = F(314159265358979, 10**14), F(314159265358980, 10**14)
        obs.append(("area is not within [pi r^2, pi (1+delta)^2 r^2]", R.zor(a < PI_LO * lo * r * r, a > PI_HI * hi * r * r), {}))
        return obs

    def on_raise(self, exc, func, line):
        return "factory raised " + exc

    def confirm(self, name, xs, outcome, exc):
        desc = f"circle(r={xs[0]}, c=({xs[1]}, {xs[2]}), ndivangle={self.n})"
        if name.startswith("factory raised"):
            return exc is not None, desc + f": {exc}"
        if outcome is None:
            return False, str(exc)
        if name.startswith("not ndivangle"):
            return not (outcome["simple"] and outcome["nseg"] == self.n and outcome["degrees"] == [2] * self.n and outcome["shared"] and outcome["ccw"]), desc
        r, cx, cy, t = xs
        dl = self.band()
        lo, hi = (1 - F(1, 10**9)) ** 2, (1 + dl) ** 2
        if name.startswith("a point of the circle"):
            for s in outcome["_segs"]:
                x = BZ.bernstein([F(p[0]) for p in s], t) - cx
                y = BZ.bernstein([F(p[1]) for p in s], t) - cy
                d2 = x * x + y * y
                if d2 < lo * r * r or d2 > hi * r * r:
                    return True, desc + f": at t={t} squared distance {float(d2)} vs r^2 {float(r*r)}"
            return False, desc
        a = F(outcome["area"])
        return a < F(314159265358979, 10**14) * lo * r * r or a > F(314159265358980, 10**14) * hi * r * r, desc + f": area {float(a)}"

    def signature(self, name, xs, outcome, exc):
        sag = F(xs[0]) * F(1 - math.cos(math.pi / self.n))
        return {"name": name.split(" raised")[0], "arc_sagitta_below_2e-4": bool(sag < F(2, 10**4)), "degree_reduced": bool(outcome and 1 in outcome["degrees"])}


class RegularN:
    """regular_polygon(n, radius, centre) for n != 4: the library fills a float64 array with radius*cos/sin, so the radius
    is concrete here and the centre symbolic: n vertices centre + r (cos 2 pi k/n, sin 2 pi k/n) in counter-clockwise
    order (float trigonometry: 1e-12), area n/2 r^2 sin(2 pi/n) (1e-9)"""

    nfree = 0

    def __init__(self, n, radius="5/2"):
        self.n, self.r = n, F(radius)
        self.names = ["cx", "cy"]

    def domain(self, xs):
        return [xs[0] >= -1000, xs[0] <= 1000, xs[1] >= -1000, xs[1] <= 1000]

    def run(self, xs):
        S = Primitive.regular_polygon(self.n, self.r, (xs[0], xs[1]))
        return {"simple": type(S) is SimpleShape, "v": [list(p) for p in geom.jordan_vertices(S.jordans[0])], "area": IntegrateShape.area(S), "ccw": bool(S.jordans[0].__float__() > 0)}

    def expected(self, xs):
        return [(xs[0] + self.r * F(math.cos(math.tau * k / self.n)), xs[1] + self.r * F(math.sin(math.tau * k / self.n))) for k in range(self.n)]

    def oblige(self, tr, out):
        xs = [Sym.var(0, 0), Sym.var(1, 0)]
        ev = self.expected(xs)
        e = F(1, 10**11)
        bad = [z3.BoolVal(len(out["v"]) != self.n or not out["simple"] or not out["ccw"])]
        if len(out["v"]) == self.n:
            for g, w in zip(out["v"], ev):
                for a, b in zip(g, w):
                    bad.append(R.zor(a - b > e, b - a > e))
        ea = F(self.n, 2) * self.r * self.r * F(math.sin(math.tau / self.n))
        a = out["area"]
        return [("regular polygon: vertices are not on the circle at equal angles, counter-clockwise", z3.Or(bad), {}),
                ("regular polygon: area is not n/2 r^2 sin(2 pi / n)", R.zor(a - ea > F(1, 10**9), ea - a > F(1, 10**9)), {})]

    def on_raise(self, exc, func, line):
        return "factory raised " + exc

    def confirm(self, name, xs, outcome, exc):
        desc = f"regular_polygon({self.n}, {self.r}, ({xs[0]}, {xs[1]}))"
        if name.startswith("factory raised"):
            return exc is not None, desc + f": {exc}"
        if outcome is None:
            return False, str(exc)
        if "vertices" in name:
            ev = self.expected(xs)
            ok = len(outcome["v"]) == self.n and outcome["simple"] and outcome["ccw"] and all(abs(F(a) - b) <= F(1, 10**9) for g, w in zip(outcome["v"], ev) for a, b in zip(g, w))
            return not ok, desc + f": {[[float(a) for a in p] for p in outcome['v']][:4]}"
        ea = F(self.n, 2) * self.r * self.r * F(math.sin(math.tau / self.n))
        return abs(F(outcome["area"]) - ea) > F(1, 10**8), desc + f": area {float(outcome['area'])} expected {float(ea)}"

    def signature(self, name, xs, outcome, exc):
        return {"name": name.split(" raised")[0]}


class Invalid:
    """invalid integer / non-positive parameters raise ValueError (concrete enumeration of the integer
    parameters, symbolic non-positive radius)"""

    nfree = 0

    def __init__(self, what, k):
        self.what, self.k = what, k
        self.names = ["r"]

    def domain(self, xs):
        return [xs[0] >= -100, xs[0] <= 100]

    def run(self, xs):
        r = xs[0]
        if self.what == "nsides":
            Primitive.regular_polygon(self.k, 1 + r * r, (0, 0))
        elif self.what == "ndivangle":
            Primitive.circle(1 + r * r, (0, 0), self.k)
        elif self.what == "radius_regular":
            Primitive.regular_polygon(4, -(r * r), (0, 0))
        elif self.what == "radius_circle":
            Primitive.circle(-(r * r), (0, 0), 8)
        return {"accepted": True}

    def oblige(self, tr, out):
        return [("invalid parameter accepted", z3.BoolVal(True), {})]

    def on_raise(self, exc, func, line):
        return None if exc == "ValueError" else "factory raised " + exc

    def confirm(self, name, xs, outcome, exc):
        if name.startswith("factory raised"):
            return exc is not None and exc["exc"] != "ValueError", f"{self.what}={self.k}, r={xs[0]}: {exc}"
        return outcome is not None, f"{self.what}={self.k} with r={xs[0]} was accepted"

    def signature(self, name, xs, outcome, exc):
        return {"name": name.split(" raised")[0]}


def specs(tier):
    Mo = "checks.c16"
    out = []
    for w in ("square", "triangle", "regular4", "polygon_ccw", "polygon_cw"):
        out.append(dict(module=Mo, scenario="Poly4", params=dict(what=w)))
    for w in ("square", "regular4"):
        out.append(dict(module=Mo, scenario="Poly4", params=dict(what=w, valid=False)))
    for n in (4, 8, 16) if tier == "quick" else (4, 5, 8, 12, 16, 32, 64):
        out.append(dict(module=Mo, scenario="Circle", params=dict(n=n), time_budget=150 if tier == "quick" else 1500))
    for n in (3, 5, 6, 7, 12, 61, 100) if tier == "quick" else (3, 5, 6, 7, 8, 9, 10, 11, 12, 17, 24, 61, 64, 100, 122, 197, 360):
        out.append(dict(module=Mo, scenario="RegularN", params=dict(n=n)))
    for k in (-1, 0, 1, 2):
        out.append(dict(module=Mo, scenario="Invalid", params=dict(what="nsides", k=k)))
    for k in (-2, 0, 1, 3):
        out.append(dict(module=Mo, scenario="Invalid", params=dict(what="ndivangle", k=k)))
    out.append(dict(module=Mo, scenario="Invalid", params=dict(what="radius_regular", k=0)))
    out.append(dict(module=Mo, scenario="Invalid", params=dict(what="radius_circle", k=0)))
    return out


def main(tier, seed):
    from checks.common import Runner

    r = Runner("C16", tier, seed)
    r.run_specs(specs(tier))
    return r.finish(
        explanation="Primitive.square / triangle / regular_polygon(4) / polygon under SYMX with symbolic size and centre: documented vertices in order, closed-form area, "
        "orientation, centre inside and a far point outside, non-positive size => ValueError on every path; Primitive.circle with symbolic radius and centre (ndivangle "
        "4..64): ndivangle shared quadratic arcs, and z3 (non-linear reals, curve parameter free) decides that every point of every arc stays in the quadratic-approximation "
        "band [r, r(1+delta_n)] and that the integrator's area lies in [pi r^2, pi (1+delta_n)^2 r^2]; invalid nsides / ndivangle / radius => ValueError.",
        assumptions=["regular_polygon(n != 4) fills a float64 numpy array (concretises a symbolic radius): only n = 4 is symbolic", "non-numeric arguments: outside",
                     "cos/sin/tan of the concrete float angles are environment values read exactly"],
    )
