"""C05 Operator results are measure-consistent (inclusion-exclusion)."""
from __future__ import annotations

from fractions import Fraction as F

import z3

from checks import geom
from checks.boolops import BoolExpr, near_contact_d2
from oracles import region as R
from shapepy import EmptyShape, IntegrateShape, WholeShape
from symx.core import Sym, SymBool, lift

EXPS = [(0, 0), (1, 0), (0, 1), (2, 0), (1, 1), (0, 2)]


def moments(S):
    if isinstance(S, (EmptyShape, WholeShape)):
        return [F(0)] * len(EXPS)  # Whole counts 0 by the documented convention
    return [IntegrateShape.polynomial(S, a, b) for a, b in EXPS]


class Measure(BoolExpr):
    """moments of A|B, A&B, A-B, A^B, ~A, A, B(t) by the real integrator, fresh operands per
    operator; the four identities become polynomial identities in t on every path"""

    nfree = 0

    def __init__(self, A, B, **kw):
        super().__init__(A, B, "A", **kw)
        self.names = ["t"] if self.dof == 1 else ["tx", "ty"]

    def run(self, xs):
        ms = {}
        for key, f in (("A", lambda e: e["A"]), ("B", lambda e: e["B"]), ("or", lambda e: e["A"] | e["B"]), ("and", lambda e: e["A"] & e["B"]),
                       ("sub", lambda e: e["A"] - e["B"]), ("xor", lambda e: e["A"] ^ e["B"]), ("inv", lambda e: ~e["A"]), ("invB", lambda e: ~e["B"])):
            env = self.operands(xs)
            S = f(env)
            ms[key] = moments(S)
        ids = {
            "m(A|B)+m(A&B)=m(A)+m(B)": [ms["or"][i] + ms["and"][i] - ms["A"][i] - ms["B"][i] for i in range(len(EXPS))],
            "m(A-B)=m(A)-m(A&B)": [ms["sub"][i] - ms["A"][i] + ms["and"][i] for i in range(len(EXPS))],
            "m(A^B)=m(A|B)-m(A&B)": [ms["xor"][i] - ms["or"][i] + ms["and"][i] for i in range(len(EXPS))],
            "m(~A)=-m(A)": [ms["inv"][i] + ms["A"][i] for i in range(len(EXPS))],
            "m(~B)=-m(B)": [ms["invB"][i] + ms["B"][i] for i in range(len(EXPS))],
        }
        return {"_ids": ids, "m": {k: v[:3] for k, v in ms.items()}, "res": {k: [v for v in vals] for k, vals in ids.items()}}

    def oblige(self, tr, out):
        obs = []
        for name, vals in out["_ids"].items():
            bad = []
            for (a, b), v in zip(EXPS, vals):
                if isinstance(v, Sym):
                    if v.is_concrete():
                        if v.c != 0:
                            bad.append(z3.BoolVal(True))
                    else:
                        bad.append(R.zb(v != 0))
                elif v != 0:
                    bad.append(z3.BoolVal(True))
            if bad:
                obs.append((name, z3.Or(bad), {}))
            else:
                obs.append((name, z3.BoolVal(False), {"identically": True}))
        return obs

    def raise_formula(self, tr):
        return BoolExpr._raise_formula(self, tr)

    def _raise_formula(self, tr):
        xs = [Sym.var(i, 0) for i in range(len(self.names))] + [F(0), F(0)]
        regs = self.regions(xs)
        return R.z_transversal(R.polys_of(regs["A"]), R.polys_of(regs["B"]))

    def confirm(self, name, xs, outcome, exc):
        if name.startswith("operator raised") or name.startswith("operator did not return"):
            return BoolExpr.confirm(self, name, list(xs) + [F(0), F(0)], outcome, exc)
        if outcome is None:
            return False, f"plain run raised {exc}"
        vals = outcome["_ids"][name]
        bad = [(EXPS[i], str(v)) for i, v in enumerate(vals) if v != 0]
        return bool(bad), f"A={self.A} B={self.B}+({self.shift(xs)[0]}, {self.shift(xs)[1]}): {name} fails for exponents {bad[:3]}"

    def signature(self, name, xs, outcome, exc):
        sig = BoolExpr.signature(self, name, list(xs) + [F(0), F(0)], outcome, exc)
        if not (name.startswith("operator")):
            sig["name"] = "measure identity"
        return sig


PAIRS_QUICK = [("square", "square"), ("tri", "unit")]
PAIRS_THOROUGH = PAIRS_QUICK + [("hollow2", "square"), ("penta", "quad"), ("two", "square"), ("inv:square", "unit"), ("ell", "tri"), ("hollow", "ell")]


def specs(tier):
    pairs = PAIRS_QUICK if tier == "quick" else PAIRS_THOROUGH
    out = []
    slabs = [(-3, -1), (-1, F(-1, 3)), (F(-1, 3), 0), (0, F(1, 3)), (F(1, 3), 1), (1, 3)]
    out.append(dict(module="checks.c05", scenario="Measure", params=dict(A="hbar", B="vbar", lim="1/3"), time_budget=150 if tier == "quick" else 2400))
    for lo, hi in ((F(-3, 2), F(-1, 2)), (F(-1, 2), F(1, 2)), (F(1, 2), 1), (1, F(3, 2))):
        out.append(dict(module="checks.c05", scenario="Measure", params=dict(A="square", B="hollow2", slab=[str(lo), str(hi)]), time_budget=150 if tier == "quick" else 2400))
    for lo, hi in ((F(-9, 20), F(-3, 20)), (F(-3, 20), F(3, 20)), (F(3, 20), F(9, 20))) if tier == "quick" else ((F(-2), F(-9, 20)), (F(-9, 20), F(-3, 20)), (F(-3, 20), F(3, 20)), (F(3, 20), F(9, 20)), (F(9, 20), F(2))):
        # nested frames (depth 2) against a small square that sweeps through the centre
        out.append(dict(module="checks.c05", scenario="Measure", params=dict(A="bullseye", B="small", slab=[str(lo), str(hi)]), time_budget=150 if tier == "quick" else 2400))
    for a, b in pairs:
        for lo, hi in slabs:  # the parameter range is cut into slabs so that one pair uses several cores
            out.append(dict(module="checks.c05", scenario="Measure", params=dict(A=a, B=b, slab=[str(lo), str(hi)]), time_budget=150 if tier == "quick" else 2400))
    return out


def main(tier, seed):
    from checks.common import Runner

    r = Runner("C05", tier, seed)
    r.run_specs(specs(tier))
    return r.finish(
        explanation="Real operators and real integrator executed under SYMX with B translated symbolically; on each path the four "
        "inclusion-exclusion identities (moments of order <= 2) are polynomial identities in t that z3 decides over the whole cell.",
        assumptions=["polygonal catalogue pairs, 1 symbolic real (translation along (3,1)); float/curved '1e-5 relative' clause outside",
                     "fresh operands per operator (operand reuse is C10's subject)"],
    )
