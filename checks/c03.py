"""C03 `B in A` for curves and shapes means subset."""
from __future__ import annotations

from fractions import Fraction as F

import z3

from checks import geom
from checks.boolops import near_contact_d2
from oracles import region as R
from symx.core import Sym, rv_const


class Contain:
    """ans = (B(t) in A) for catalogue shapes, B translated by t*(3,1); free query point p.
    mode 'shape': B as a shape;  mode 'jordan': the first boundary curve of B with the flag."""

    nfree = 2
    max_degree = 2
    ob_timeout_ms = 20000

    def __init__(self, A, B, mode="shape", flag=True, swap=False, lim=3, direction=(3, 1), dof=1, moved=None):
        self.A, self.B, self.mode, self.flag, self.swap = A, B, mode, flag, swap
        # moved=(dx, dy): A answers containment queries where it was built and is then moved in place (with B) before the question
        self.moved = (F(moved[0]), F(moved[1])) if moved else None
        self.lim = lim
        self.dir = (F(direction[0]), F(direction[1]))
        self.dof = dof
        self.names = (["t"] if dof == 1 else ["tx", "ty"]) + ["px", "py"]

    def domain(self, xs):
        return [c for x in xs[: self.dof] for c in (x >= -self.lim, x <= self.lim)]

    def shift(self, xs):
        if self.dof == 2:
            return xs[0], xs[1]
        return xs[0] * self.dir[0], xs[0] * self.dir[1]

    def run(self, xs):
        tx, ty = self.shift(xs)
        A = geom.make(self.A)
        if self.moved:
            for name in ("unit", "far"):
                w = geom.make(name, F(1, 3), F(1, 7))
                w in A
                A in w
            A.box()
            A.move(self.moved[0], self.moved[1])
            tx, ty = tx + self.moved[0], ty + self.moved[1]
        B = geom.make(self.B, tx, ty)
        if self.mode == "shape":
            ans = bool(A in B) if self.swap else bool(B in A)
        else:
            # the curve is the first boundary polygon of B's independent description (a composite shape orders its
            # own curves by area, so B.jordans[0] need not be that one)
            from shapepy import JordanCurve

            curve = R.polys_of(geom.region_of_name(self.B, tx, ty))[0]
            ans = bool(A.contains_jordan(JordanCurve.from_vertices(curve), self.flag))
        return {"ans": ans}

    # regions: inner must be a subset of (the closure of) outer
    def regs(self, xs):
        tx, ty = self.shift(xs)
        if self.moved:
            ra, rb = geom.region_of_name(self.A, self.moved[0], self.moved[1]), geom.region_of_name(self.B, tx + self.moved[0], ty + self.moved[1])
            return (rb, ra) if self.swap and self.mode == "shape" else (ra, rb)
        ra, rb = geom.region_of_name(self.A), geom.region_of_name(self.B, tx, ty)
        return (rb, ra) if self.swap and self.mode == "shape" else (ra, rb)

    def oblige(self, tr, out):
        xs = [Sym.var(i, 0) for i in range(len(self.names))]
        px, py = xs[-2], xs[-1]
        outer, inner = self.regs(xs)
        po, pi = R.polys_of(outer), R.polys_of(inner)
        obs = []
        if getattr(self, "_clear", None) is None:
            self._clear = R.z_clear(po, pi)
        clear = self._clear
        if self.mode == "shape":
            if out["ans"]:
                # some point of inner, off all boundaries, outside outer
                f = z3.And(clear, R.z_off_boundary(px, py, po + pi), R.z_in(inner, px, py), z3.Not(R.z_in(outer, px, py)))
                obs.append(("`in` says True but a point of the inner region lies outside the outer one", f, {}))
            else:
                n, f, m = self._forall_subset(tr, inner, outer, po)
                obs.append((n, z3.And(clear, f), m))
        else:
            curve = pi[0]
            # q(s) on edge i of the curve:  free variable px plays the role of s in [0,1], py unused
            s = px
            bad, good = [], []
            for i in range(len(curve)):
                a, b = curve[i], curve[(i + 1) % len(curve)]
                qx, qy = a[0] + s * (b[0] - a[0]), a[1] + s * (b[1] - a[1])
                inn = R.z_in(outer, qx, qy)
                onb = R.z_on_boundary(qx, qy, po)
                off = R.z_off_boundary(qx, qy, po)
                if self.flag:
                    bad.append(z3.And(off, z3.Not(inn)))  # strictly outside
                else:
                    bad.append(z3.Or(z3.And(off, z3.Not(inn)), onb))  # not in the open region
            srange = R.zand(s >= 0, s <= 1)
            if out["ans"]:
                obs.append(("contains_jordan says True but a point of the curve is not contained", z3.And(clear, srange, z3.Or(bad)), {}))
            else:
                n, f, m = self._forall_curve(tr, curve, outer, po)
                obs.append((n, z3.And(clear, f), m))
        return obs

    def _forall_subset(self, tr, inner, outer, po):
        """`in` says False: violated at those t of the cell for which *every* point of inner lies in the closure of outer"""
        xs = [Sym.var(i, 0) for i in range(len(self.names))]
        body = z3.Implies(R.z_in(inner, xs[-2], xs[-1]), z3.Or(R.z_in(outer, xs[-2], xs[-1]), R.z_on_boundary(xs[-2], xs[-1], po)))
        return ("`in` says False but every point of the inner region lies in the closure of the outer one",
                z3.ForAll([tr.zvars[-2], tr.zvars[-1]], body), {"quantified": True})

    def _forall_curve(self, tr, curve, outer, po):
        xs = [Sym.var(i, 0) for i in range(len(self.names))]
        s = xs[-2]
        cs = []
        for i in range(len(curve)):
            a, b = curve[i], curve[(i + 1) % len(curve)]
            qx, qy = a[0] + s * (b[0] - a[0]), a[1] + s * (b[1] - a[1])
            inn = R.z_in(outer, qx, qy)
            onb = R.z_on_boundary(qx, qy, po)
            cs.append(z3.Or(inn, onb) if self.flag else z3.And(inn, z3.Not(onb)))
        body = z3.Implies(R.zand(s >= 0, s <= 1), z3.And(cs))
        return ("contains_jordan says False but every point of the curve is contained", z3.ForAll([tr.zvars[-2]], body), {"quantified": True})

    def on_raise(self, exc, func, line):
        return "containment query raised " + exc

    # -------- plain side: the truth at a concrete t is decided by z3 on concrete polygons (existential LRA)
    def _truth(self, xs):
        from symx import core

        tr = core.Tracer(["qx", "qy"])
        core.set_tracer(tr)
        sx, sy = Sym.var(0, 0), Sym.var(1, 0)
        qx, qy = tr.zvars
        outer, inner = self.regs(xs)
        po, pi = R.polys_of(outer), R.polys_of(inner)
        s = z3.Solver()
        s.set("timeout", 60000)
        if self.mode == "shape":
            s.add(R.z_in(inner, sx, sy), z3.Not(R.z_in(outer, sx, sy)), z3.Not(R.z_on_boundary(sx, sy, po)))
            r = s.check()
            w = None
            if r == z3.sat:
                m = s.model()
                w = (str(m.eval(qx, model_completion=True)), str(m.eval(qy, model_completion=True)))
            return (r == z3.unsat), w, str(r)
        curve = pi[0]
        bad = []
        for i in range(len(curve)):
            a, b = curve[i], curve[(i + 1) % len(curve)]
            x, y = a[0] + sx * (b[0] - a[0]), a[1] + sx * (b[1] - a[1])
            inn = R.z_in(outer, x, y)
            onb = R.z_on_boundary(x, y, po)
            bad.append(z3.And(z3.Not(inn), z3.Not(onb)) if self.flag else z3.Or(z3.Not(inn), onb))
        s.add(qx >= 0, qx <= 1, z3.Or(bad))
        r = s.check()
        return (r == z3.unsat), (str(s.model().eval(qx, model_completion=True)) if r == z3.sat else None), str(r)

    def confirm(self, name, xs, outcome, exc):
        t = self.shift(xs)
        desc = f"A={self.A}, B={self.B}+({t[0]}, {t[1]}), mode={self.mode}, flag={self.flag}, swap={self.swap}"
        if name.startswith("containment query raised"):
            return exc is not None, desc + f": {exc}"
        if outcome is None:
            return False, f"plain run raised {exc}"
        truth, w, r = self._truth(xs)
        if r == "unknown":
            return False, desc + ": oracle undecided"
        bad = outcome["ans"] != truth
        return bad, desc + f": library says {outcome['ans']}, exact subset test says {truth} (witness of non-containment: {w})"

    def signature(self, name, xs, outcome, exc):
        outer, inner = self.regs(xs)
        d2 = near_contact_d2(R.polys_of(outer), R.polys_of(inner))
        sig = {"name": "containment", "near_contact_1e-5": bool(d2 is not None and d2 < F(1, 10**10)), "mode": self.mode}
        if outcome is not None:
            sig["library_says"] = outcome["ans"]
        if exc:
            sig["exc"] = exc["exc"]
        sig["unbounded_in_unbounded"] = bool(self.mode == "shape" and _unbounded(inner) and _unbounded(outer))
        return sig


def _unbounded(reg):
    return bool(R.x_in(reg, (F(10**6), F(10**6 + 1))))


PAIRS_QUICK = [("big", "square"), ("penta", "unit"), ("hollow", "unit"), ("inv:square", "inv:big"), ("two", "unit"), ("hollow", "hollow2"), ("inv:ell", "inv:unit"), ("youa", "bar"), ("ell", "notchtri"), ("inv:two", "unit")]
PAIRS_THOROUGH = PAIRS_QUICK + [("ell", "unit"), ("you", "small"), ("inv:hollow", "unit"), ("inv:two", "inv:big"), ("framedot", "unit"), ("inv:ell", "inv:big"),
                                ("big", "two"), ("hollow", "two"), ("inv:unit", "hollow"), ("quad", "tri")]


def specs(tier):
    from checks.curvedops import containment_specs

    out = containment_specs(tier)
    pairs = PAIRS_QUICK if tier == "quick" else PAIRS_THOROUGH
    for A, B in pairs:
        for swap in (False, True):
            out.append(dict(module="checks.c03", scenario="Contain", params=dict(A=A, B=B, swap=swap), time_budget=None if tier == "quick" else 1800))
    for A, B in pairs[: 3 if tier == "quick" else len(pairs)]:
        for flag in (True, False):
            out.append(dict(module="checks.c03", scenario="Contain", params=dict(A=A, B=B, mode="jordan", flag=flag), time_budget=None if tier == "quick" else 1800))
    if tier != "quick":
        for A, B in [("big", "square"), ("penta", "unit"), ("hollow", "unit")]:
            out.append(dict(module="checks.c03", scenario="Contain", params=dict(A=A, B=B, dof=2, lim=2), time_budget=1800))
    for A, B in [("two", "unit"), ("hollow", "unit")] + ([("framedot", "unit"), ("inv:two", "tri")] if tier != "quick" else []):
        # the container answered queries where it was built and was then moved in place
        out.append(dict(module="checks.c03", scenario="Contain", params=dict(A=A, B=B, moved=["1", "20"]), time_budget=None if tier == "quick" else 1800))
    for d in ((0, 1), (1, 0)):
        out.append(dict(module="checks.c03", scenario="Contain", params=dict(A="youb", B="bar2", direction=list(d), lim=2), time_budget=None if tier == "quick" else 1800))
        out.append(dict(module="checks.c03", scenario="Contain", params=dict(A="youb", B="bar2", direction=list(d), lim=2, mode="jordan"), time_budget=None if tier == "quick" else 1800))
    for A, B in [("empty", "unit"), ("whole", "unit"), ("unit", "empty"), ("unit", "whole"), ("empty", "whole"), ("whole", "empty"), ("empty", "empty"), ("whole", "whole")]:
        out.append(dict(module="checks.c03", scenario="Contain", params=dict(A=A, B=B)))
    return out


def main(tier, seed):
    from checks.common import Runner

    r = Runner("C03", tier, seed)
    r.run_specs(specs(tier))
    return r.finish(
        explanation="Real `B(t) in A`, `A in B(t)` and contains_jordan executed under SYMX (B translated symbolically). Answer True on a cell: z3 "
        "shows no point of the inner region / curve lies outside the outer region (query point or curve parameter free, off the boundary band). "
        "Answer False: z3 (quantified LRA) shows there is no parameter in the cell at which every point is contained. The replay decides the exact "
        "subset relation at the witness with an existential z3 query over the concrete polygons.",
        assumptions=["polygonal catalogue pairs of all kinds (bounded/unbounded, holes, components, Empty/Whole), 1 symbolic real",
                     "answer True is checked up to the 1.5e-6 boundary band; answer False exactly (closure)"],
    )
