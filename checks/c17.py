"""C17 Jordan-curve constructors agree with each other and reject open chains."""
from __future__ import annotations

from fractions import Fraction as F

import z3

from checks import geom
from checks.c18 import zraw
from oracles import bezier as BZ
from oracles import moments as M
from oracles import region as R
from shapepy import JordanCurve, PlanarCurve
from shapepy.jordancurve import IntegrateJordan
from symx import core
from symx.core import Sym, lift, val, zterm


def same_num(a, b):
    a, b = lift(a), lift(b)
    return a.n == b.n and a.d == b.d


def chain_from(xs, degrees):
    """control points of a closed chain: consecutive segments share their junction"""
    pts, k = [], 0
    for d in degrees:
        for _ in range(d):
            pts.append((xs[k], xs[k + 1]))
            k += 2
    segs, pos, n = [], 0, len(pts)
    for d in degrees:
        segs.append([pts[(pos + i) % n] for i in range(d + 1)])
        pos += d
    return segs


def summary(J, box=True):
    segs = J.segments
    n = len(segs)
    shared = all(segs[i].ctrlpoints[-1] is segs[(i + 1) % n].ctrlpoints[0] for i in range(n))
    b = J.box() if box else None
    return {
        "nseg": n,
        "degrees": [s.degree for s in segs],
        "ctrl": [[[p[0], p[1]] for p in s.ctrlpoints] for s in segs],
        "vertices": [[p[0], p[1]] for p in J.vertices],
        "shared": shared,
        "box": [b.lowpt[0], b.lowpt[1], b.toppt[0], b.toppt[1]] if box else None,
        "area": IntegrateJordan.area(J),
    }


class Ctors:
    """the same closed chain (symbolic control points, given segment degrees) through
    from_ctrlpoints, from_segments, JordanCurve(segments) and -- for polygons -- from_vertices"""

    nfree = 0
    raw = False

    def __init__(self, degrees, orient=False, box=False):
        self.degrees = list(degrees)
        self.orient = orient
        self.box = box
        self.nv = sum(self.degrees)
        self.names = [f"c{i}{ax}" for i in range(self.nv) for ax in "xy"]

    def seed(self):
        import math

        out = []
        for i in range(self.nv):
            ang = 2 * math.pi * i / self.nv
            out += [F(round(50 * math.cos(ang)) + i, 7), F(round(50 * math.sin(ang)) + (i * i) % 3, 7)]
        return out

    def run(self, xs):
        segs = chain_from(xs, self.degrees)
        out = {}
        J1 = JordanCurve.from_ctrlpoints([list(s) for s in segs])
        out["ctrlpoints"] = summary(J1, self.box)
        J2 = JordanCurve.from_segments([PlanarCurve(list(s)) for s in segs])
        out["segments"] = summary(J2, self.box)
        if all(d == 1 for d in self.degrees):
            J3 = JordanCurve.from_vertices([s[0] for s in segs])
            out["vertices"] = summary(J3, self.box)
        if self.orient:
            out["float_positive"] = bool(J1.__float__() > 0)
            out["eq12"] = None
            # the reversed description, and the same curve object turned round in place after its length was queried
            if [sg.degree for sg in J2.segments] == self.degrees:  # (a degree-reduced piece is judged by its own obligation)
                Jr = JordanCurve.from_ctrlpoints([list(reversed(s)) for s in reversed(segs)])
                out["float_reversed_positive"] = bool(Jr.__float__() > 0)
                out["float_before_invert_positive"] = bool(J2.__float__() > 0)
                J2.invert()
                out["float_inverted_positive"] = bool(J2.__float__() > 0)
        out["_segs"] = segs
        return out

    def oblige(self, tr, out):
        segs = out["_segs"]
        T, Fl = z3.BoolVal(True), z3.BoolVal(False)
        ref = [[(p[0], p[1]) for p in s] for s in segs]
        flatv = []
        for s in ref:
            flatv += s[:-1]
        obs = []
        for key in ("ctrlpoints", "segments", "vertices"):
            if key not in out:
                continue
            sm = out[key]
            if sum(sm["degrees"]) < sum(self.degrees):
                # a piece was degree-reduced (least-squares error below the library's tolerance): its control points cannot be the given ones,
                # but the pieces must still start and end at the given junctions (to the 1e-9 of the library's point equality) and chain
                tol = F(1, 10**9)
                moved = []
                if sm["nseg"] == len(segs):
                    for gs, ws in zip(sm["ctrl"], ref):
                        for g, w in ((gs[0], ws[0]), (gs[-1], ws[-1])):
                            moved.append(R.zor(g[0] - w[0] > tol, w[0] - g[0] > tol, g[1] - w[1] > tol, w[1] - g[1] > tol))
                obs.append((f"from_{key}: a degree-reduced piece no longer starts/ends at the given junction (the curve is not closed)", z3.Or(moved) if moved else T, {"degree_reduced": True}))
                continue
            ok = sm["nseg"] == len(segs) and sm["degrees"] == self.degrees and sm["shared"]
            ok = ok and len(sm["vertices"]) == len(flatv) and all(same_num(g[0], w[0]) and same_num(g[1], w[1]) for g, w in zip(sm["vertices"], flatv))
            ok = ok and all(len(gs) == len(ws) and all(same_num(g[0], w[0]) and same_num(g[1], w[1]) for g, w in zip(gs, ws)) for gs, ws in zip(sm["ctrl"], ref))
            obs.append((f"from_{key}: vertices/segments differ from the description (each control point once, in order, junctions shared)", Fl if ok else T, {}))
            # area: exact integral of the chain
            z = tr.zvars
            zs = chain_from(list(z), self.degrees)
            want = M.chain_moment([([p[0] for p in s], [p[1] for p in s]) for s in zs], 0, 0, M.qz3)
            obs.append((f"from_{key}: area differs from the exact one", zterm(sm["area"], tr) != want, {}))
            if not self.box:
                continue
            # box = bounding box of the control points
            allp = [p for s in ref for p in s]
            bx = sm["box"]
            inside = []
            for p in allp:
                inside.append(R.zand(bx[0] <= p[0], p[0] <= bx[2], bx[1] <= p[1], p[1] <= bx[3]))
            touch = [z3.Or([R.zb(_eq(bx[0], p[0])) for p in allp]), z3.Or([R.zb(_eq(bx[2], p[0])) for p in allp]),
                     z3.Or([R.zb(_eq(bx[1], p[1])) for p in allp]), z3.Or([R.zb(_eq(bx[3], p[1])) for p in allp])]
            obs.append((f"from_{key}: box() is not the bounding box of the control points", z3.Not(z3.And(inside + touch)), {}))
        if self.orient and "float_inverted_positive" in out:
            z = tr.zvars
            zs = chain_from(list(z), self.degrees)
            want = M.chain_moment([([p[0] for p in s], [p[1] for p in s]) for s in zs], 0, 0, M.qz3)
            obs.append(("sign of float(curve) is not the orientation", (want > 0) != z3.BoolVal(out["float_positive"]), {}))
            obs.append(("sign of float(curve) is not the orientation for the reversed description", (want < 0) != z3.BoolVal(out["float_reversed_positive"]), {}))
            obs.append(("sign of float(curve) is not the orientation after invert() of a curve whose length was queried before",
                        z3.Or((want > 0) != z3.BoolVal(out["float_before_invert_positive"]), (want < 0) != z3.BoolVal(out["float_inverted_positive"])), {}))
        return obs

    def on_raise(self, exc, func, line):
        return "constructor raised " + exc

    def confirm(self, name, xs, outcome, exc):
        if name.startswith("constructor raised"):
            return exc is not None, str(exc)
        if outcome is None:
            return False, str(exc)
        segs = chain_from(xs, self.degrees)
        ref = [[(p[0], p[1]) for p in s] for s in segs]
        flatv = []
        for s in ref:
            flatv += s[:-1]
        desc = f"degrees {self.degrees} control points {[str(x) for x in xs]}"
        if name.startswith("sign of float(curve) is not the orientation for the reversed"):
            want = M.chain_moment([([p[0] for p in s], [p[1] for p in s]) for s in segs], 0, 0, M.qfrac)
            return (want < 0) != outcome["float_reversed_positive"], desc + f": exact area {want}, float(reversed curve) > 0 is {outcome['float_reversed_positive']}"
        if name.startswith("sign of float(curve) is not the orientation after invert"):
            want = M.chain_moment([([p[0] for p in s], [p[1] for p in s]) for s in segs], 0, 0, M.qfrac)
            bad = (want > 0) != outcome["float_before_invert_positive"] or (want < 0) != outcome["float_inverted_positive"]
            return bad, desc + f": exact area {want}, float(curve) > 0 is {outcome['float_before_invert_positive']} before and {outcome['float_inverted_positive']} after invert()"
        if name.startswith("sign of float"):
            want = M.chain_moment([([p[0] for p in s], [p[1] for p in s]) for s in segs], 0, 0, M.qfrac)
            return (want > 0) != outcome["float_positive"], desc + f": exact area {want}, float(curve) > 0 is {outcome['float_positive']}"
        key = name[len("from_") : name.index(":")]
        sm = outcome[key]
        if "degree-reduced piece" in name:
            tol = F(1, 10**9)
            bad = []
            if sm["nseg"] != len(segs):
                bad.append("number of pieces")
            else:
                for k, (gs, ws) in enumerate(zip(sm["ctrl"], ref)):
                    for g, w in ((gs[0], ws[0]), (gs[-1], ws[-1])):
                        if abs(val(g[0]) - w[0]) > tol or abs(val(g[1]) - w[1]) > tol:
                            bad.append(f"piece {k}: ({val(g[0])}, {val(g[1])}) instead of ({w[0]}, {w[1]})")
            return bool(bad) and sum(sm["degrees"]) < sum(self.degrees), desc + f": {key} reduced the degrees to {sm['degrees']}; " + "; ".join(bad[:2])
        if sum(sm["degrees"]) < sum(self.degrees):
            return False, "degree-reduced"
        if "vertices/segments differ" in name:
            ok = sm["nseg"] == len(segs) and sm["degrees"] == self.degrees and sm["shared"]
            ok = ok and [tuple(map(val, v)) for v in sm["vertices"]] == flatv
            ok = ok and [[tuple(map(val, p)) for p in s] for s in sm["ctrl"]] == ref
            return not ok, desc + f": {key} gives vertices {[[str(a) for a in v] for v in sm['vertices']]} degrees {sm['degrees']} shared={sm['shared']}"
        if "area differs" in name:
            want = M.chain_moment([([p[0] for p in s], [p[1] for p in s]) for s in segs], 0, 0, M.qfrac)
            return val(sm["area"]) != want, desc + f": area {sm['area']} exact {want}"
        if "box()" in name:
            allp = [p for s in ref for p in s]
            want = [min(p[0] for p in allp), min(p[1] for p in allp), max(p[0] for p in allp), max(p[1] for p in allp)]
            return [val(b) for b in sm["box"]] != want, desc + f": box {sm['box']} expected {want}"
        return False, "unknown"

    def signature(self, name, xs, outcome, exc):
        sig = {"name": name.split(":")[-1].strip()[:60]}
        if "degree-reduced piece" in name:
            sig["a_piece_was_degree_reduced"] = True
        return sig


def _eq(a, b):
    d = a - b
    if isinstance(d, Sym):
        return d == 0
    return d == 0


class OpenChain:
    """a chain whose last end point misses the first start point by a symbolic gap must be
    rejected whenever the gap exceeds the library's 1e-9 point tolerance"""

    nfree = 0

    def __init__(self, poly, where=0, via="segments"):
        self.poly, self.where, self.via = poly, where, via
        self.names = ["gx", "gy"]

    def domain(self, xs):
        return [xs[0] >= -1, xs[0] <= 1, xs[1] >= -1, xs[1] <= 1]

    def run(self, xs):
        pts = [(F(x), F(y)) for x, y in geom.POLY[self.poly]]
        n = len(pts)
        segs = []
        for i in range(n):
            a, b = pts[i], pts[(i + 1) % n]
            if i == self.where:
                b = (b[0] + xs[0], b[1] + xs[1])
            segs.append([a, b])
        if self.via == "segments":
            J = JordanCurve.from_segments([PlanarCurve(s) for s in segs])
        elif self.via == "ctrlpoints":
            J = JordanCurve.from_ctrlpoints(segs)
        else:
            J = JordanCurve([PlanarCurve(s) for s in segs])
        return {"built": True, "nseg": len(J.segments)}

    def oblige(self, tr, out):
        gx, gy = Sym.var(0, 0), Sym.var(1, 0)
        e = F(1, 10**9) + F(1, 10**12)
        return [("open chain accepted", R.zor(gx > e, -gx > e, gy > e, -gy > e), {})]

    def on_raise(self, exc, func, line):
        return None

    def confirm(self, name, xs, outcome, exc):
        if outcome is None:
            return False, f"rejected with {exc}"
        e = F(1, 10**9) + F(1, 10**12)
        return abs(xs[0]) > e or abs(xs[1]) > e, f"{self.poly} with a gap ({xs[0]}, {xs[1]}) after segment {self.where} was accepted by {self.via}"

    def signature(self, name, xs, outcome, exc):
        return {"name": name, "via": self.via}


def specs(tier):
    Mo = "checks.c17"
    out = []
    fam = [[1, 1, 1], [1, 1, 1, 1], [2, 1], [1, 2, 1], [3, 1]] + ([[1] * 5, [2, 2], [3, 2, 1], [1] * 6] if tier != "quick" else [])
    for degs in fam:
        out.append(dict(module=Mo, scenario="Ctors", params=dict(degrees=degs), time_budget=200 if tier == "quick" else 900))
    out.append(dict(module=Mo, scenario="Ctors", params=dict(degrees=[1, 1, 1], box=True)))
    out.append(dict(module=Mo, scenario="Ctors", params=dict(degrees=[2, 1], box=True)))
    out.append(dict(module=Mo, scenario="Ctors", params=dict(degrees=[1, 1, 1], orient=True)))
    out.append(dict(module=Mo, scenario="Ctors", params=dict(degrees=[2, 1], orient=True)))
    if tier != "quick":
        out.append(dict(module=Mo, scenario="Ctors", params=dict(degrees=[1, 1, 1, 1], orient=True), time_budget=600))
        out.append(dict(module=Mo, scenario="Ctors", params=dict(degrees=[1, 2, 1], orient=True), time_budget=600))
    for via in ("segments", "ctrlpoints", "init"):
        for where in (0, 2, 3):  # 3 = the closing junction (last end point -> first start point)
            out.append(dict(module=Mo, scenario="OpenChain", params=dict(poly="square", where=where, via=via)))
    return out


def main(tier, seed):
    from checks.common import Runner

    r = Runner("C17", tier, seed)
    r.run_specs(specs(tier))
    return r.finish(
        explanation="The same closed chain with all control points symbolic (given segment degrees 1..3) through from_ctrlpoints, from_segments and from_vertices: "
        "identical vertices (each control point once, in order), segments, degrees, shared junction objects; area equal to the exact integral of the chain; box() = "
        "bounding box of the control points (z3 over the min/max path cells); sign of float(curve) = sign of the exact area; a chain with a symbolic gap at a "
        "junction is rejected on every path where the gap exceeds 1e-9.",
        assumptions=["from_full_curve (pynurbs knot removal switches to float64 linear algebra for generic numbers) and non-curve arguments are outside"],
    )
