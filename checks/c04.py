"""C04 Area and polynomial moments equal the true integrals over the region."""
from __future__ import annotations

from fractions import Fraction as F

import z3

from checks import geom
from checks.c18 import zraw
from oracles import moments as M
from shapepy import ConnectedShape, DisjointShape, IntegrateShape, JordanCurve, Primitive, SimpleShape
from symx import core
from symx.core import Sym, val, zterm


def exps(order):
    """all exponent pairs of total order <= `order`; order = "high" selects a few pairs with both exponents large (the
    node count of the quadrature must grow with the *sum* of the exponents)"""
    if order == "high":
        return [(0, 0), (3, 4), (4, 4), (2, 5), (5, 3)]
    return [(a, b) for a in range(order + 1) for b in range(order + 1 - a)]


class PolyMoments:
    """IntegrateShape.polynomial / area / float on a polygon with n fully symbolic vertices; also
    on its complement (documented sign convention).  One path; the executed arithmetic (raw DAG)
    must equal the exact integral for all vertex positions."""

    nfree = 0
    raw = True
    ob_timeout_ms = 60000

    def __init__(self, n, order):
        self.n, self.order = n, order
        self.low = 2 if order == "high" else min(order, 2)
        if order == "high":
            self.low = 0
        self.names = [f"x{i}" for i in range(n)] + [f"y{i}" for i in range(n)]

    def verts(self, xs):
        n = self.n
        return [(xs[i], xs[n + i]) for i in range(n)]

    def run(self, xs):
        S = Primitive.polygon(self.verts(xs))
        out = {"m": [IntegrateShape.polynomial(S, a, b) for a, b in exps(self.order)]}
        out["area"] = IntegrateShape.area(S)
        out["float"] = S.__float__()
        T = ~S
        out["inv"] = [IntegrateShape.polynomial(T, a, b) for a, b in exps(self.low)]
        # the same object after an in-place change is still "a shape": integrate again
        S.scale(2, F(1, 3))
        S.move(F(1, 2), -1)
        out["again"] = [IntegrateShape.polynomial(S, a, b) for a, b in exps(self.low)]
        return out

    def oracle(self, vs, q):
        segs = M.polygon_segments(vs)
        return [M.chain_moment(segs, a, b, q) for a, b in exps(self.order)]

    def oblige(self, tr, out):
        z = tr.zvars
        n = self.n
        vs = [(z[i], z[n + i]) for i in range(n)]
        o = self.oracle(vs, M.qz3)
        E = exps(self.order)
        obs = []
        for (a, b), got, want in zip(E, out["m"], o):
            obs.append((f"polynomial(S,{a},{b}) is not the exact integral", zraw(tr, got) != want, {"a": a, "b": b}))
        obs.append(("area / float(S) differ from polynomial(S,0,0)", z3.Or(zraw(tr, out["area"]) != o[0], zraw(tr, out["float"]) != o[0]), {}))
        E2 = exps(self.low)
        obs.append(("unbounded complement does not report minus the value", z3.Or([zraw(tr, g) != -o[E.index(e)] for e, g in zip(E2, out["inv"])]), {}))
        vs2 = [(2 * x + M.qz3(1, 2), y * M.qz3(1, 3) - 1) for x, y in vs]
        o2 = [M.chain_moment(M.polygon_segments(vs2), a, b, M.qz3) for a, b in E2]
        obs.append(("moments after an in-place scale+move are not the exact integrals", z3.Or([zraw(tr, g) != w for g, w in zip(out["again"], o2)]), {}))
        return obs

    def on_raise(self, exc, func, line):
        return "integration raised " + exc

    def confirm(self, name, xs, outcome, exc):
        if name.startswith("integration raised"):
            return exc is not None, str(exc)
        if outcome is None:
            return False, str(exc)
        vs = self.verts(xs)
        o = self.oracle(vs, M.qfrac)
        E = exps(self.order)
        if name.startswith("polynomial(S,"):
            a, b = [int(t) for t in name[len("polynomial(S,") : name.index(")")].split(",")]
            i = E.index((a, b))
            return val(outcome["m"][i]) != o[i], f"polygon {[(str(x), str(y)) for x, y in vs]}: polynomial(S,{a},{b}) = {outcome['m'][i]} but the integral is {o[i]}"
        if name.startswith("area"):
            return val(outcome["area"]) != o[0] or val(outcome["float"]) != o[0], f"area {outcome['area']} float {outcome['float']} exact {o[0]}"
        E2 = exps(self.low)
        if name.startswith("moments after an in-place"):
            vs2 = [(2 * x + F(1, 2), y * F(1, 3) - 1) for x, y in vs]
            o2 = [M.chain_moment(M.polygon_segments(vs2), a, b, M.qfrac) for a, b in E2]
            bad = [(e, str(g), str(w)) for e, g, w in zip(E2, outcome["again"], o2) if val(g) != w]
            return bool(bad), f"polygon {[(str(x), str(y)) for x, y in vs]} scaled (2, 1/3) and moved (1/2, -1): {bad[:3]}"
        bad = [(e, str(g), str(-o[E.index(e)])) for e, g in zip(E2, outcome["inv"]) if val(g) != -o[E.index(e)]]
        return bool(bad), f"polygon {[(str(x), str(y)) for x, y in vs]}: complement moments {bad[:3]}"

    def signature(self, name, xs, outcome, exc):
        return {"name": name.split("(")[0]}


class CompositeMoments:
    """moments of catalogue composite shapes (hole subtracted, components added, complements)
    translated by a symbolic vector: polynomial identities in (tx, ty)"""

    nfree = 0
    raw = False

    def __init__(self, shape, order=3):
        self.shape, self.order = shape, order
        self.names = ["tx", "ty"]

    def run(self, xs):
        S = geom.make(self.shape, xs[0], xs[1])
        return {"m": [IntegrateShape.polynomial(S, a, b) for a, b in exps(self.order)], "float": S.__float__(), "kind": type(S).__name__}

    def oracle(self, xs):
        """sum over the boundary polygons of the independent region description, signed by orientation"""
        reg = geom.region_of_name(self.shape, xs[0], xs[1])
        return [_reg_moment(reg, a, b) for a, b in exps(self.order)]

    def oblige(self, tr, out):
        xs = [Sym.var(0, 0), Sym.var(1, 0)]
        o = self.oracle(xs)
        bad = []
        for got, want in zip(out["m"], o):
            bad.append(_neq(got, want))
        bad.append(_neq(out["float"], o[0]))
        return [("moment of a composite shape is not the sum over its boundaries of the exact integrals", z3.Or(bad), {})]

    def on_raise(self, exc, func, line):
        return "integration raised " + exc

    def confirm(self, name, xs, outcome, exc):
        if name.startswith("integration raised"):
            return exc is not None, str(exc)
        if outcome is None:
            return False, str(exc)
        o = self.oracle(xs)
        bad = [(e, str(g), str(w)) for e, g, w in zip(exps(self.order), outcome["m"], o) if val(g) != w]
        if val(outcome["float"]) != o[0]:
            bad.append(("float", str(outcome["float"]), str(o[0])))
        return bool(bad), f"{self.shape}+({xs[0]}, {xs[1]}): {bad[:3]}"

    def signature(self, name, xs, outcome, exc):
        return {"name": name.split("(")[0]}


def _neq(got, want):
    from oracles.region import zb

    d = got - want
    if isinstance(d, Sym):
        return zb(d != 0)
    return z3.BoolVal(d != 0)


def _reg_moment(reg, a, b):
    """moment of a region description: polygons are signed by their own orientation, so the
    Boolean structure of catalogue shapes (and / or / not over nested or disjoint polygons) reduces
    to the signed sum; `not` flips the sign (documented convention for unbounded shapes)"""
    from oracles.region import x_moment

    k = reg[0]
    if k == "poly":
        m = x_moment(reg[1], a, b)
        # reg[2] == ccw flag from the catalogue; the signed integral already carries the orientation
        return m
    if k in ("and", "or"):
        return sum((_reg_moment(r, a, b) for r in reg[1]), F(0))
    if k == "not":
        return -_reg_moment(reg[1], a, b)
    raise ValueError(k)


class CurvedMoments:
    """closed chains with curved pieces and fully symbolic control points: area must be exact for
    every degree; higher moments exactly when the library's node count integrates them exactly
    (decided by the same identity query: `sat` there is *not* a violation of the statement, which
    only promises quadrature accuracy, and is reported as information)"""

    nfree = 0
    raw = True
    ob_timeout_ms = 60000

    def __init__(self, degrees, order=1):
        self.degrees = list(degrees)
        self.order = order
        names = []
        for j, d in enumerate(self.degrees):
            for i in range(d):  # last control point of each segment is the first of the next
                names += [f"s{j}x{i}", f"s{j}y{i}"]
        self.names = names

    def seed(self):
        # control points in generic position on a circle-like arrangement
        import math

        n = len(self.names) // 2
        out = []
        for i in range(n):
            ang = 2 * math.pi * i / n
            out += [F(round(5 * math.cos(ang) * 7 + i), 7), F(round(5 * math.sin(ang) * 7 + (i * i) % 3), 7)]
        return out

    def ctrl(self, xs):
        pts, k = [], 0
        starts = []
        for d in self.degrees:
            starts.append(k // 2)
            for i in range(d):
                pts.append((xs[k], xs[k + 1]))
                k += 2
        segs = []
        npts = len(pts)
        pos = 0
        for d in self.degrees:
            segs.append([pts[(pos + i) % npts] for i in range(d + 1)])
            pos += d
        return segs

    def run(self, xs):
        segs = self.ctrl(xs)
        J = JordanCurve.from_ctrlpoints(segs)
        S = SimpleShape(J)
        degs = [s.degree for s in S.jordans[0].segments]
        return {"degrees": degs, "m": [IntegrateShape.polynomial(S, a, b) for a, b in exps(self.order)], "area": IntegrateShape.area(S)}

    def oracle(self, segs, q):
        ss = [([p[0] for p in s], [p[1] for p in s]) for s in segs]
        return [M.chain_moment(ss, a, b, q) for a, b in exps(self.order)]

    def oblige(self, tr, out):
        if sorted(out["degrees"]) != sorted(self.degrees) or len(out["degrees"]) != len(self.degrees):
            raise core.Intractable("a segment was degree-reduced within the library's 1e-9 tolerance: outside the exactness claim")
        z = tr.zvars
        segs = self.ctrl(list(z))
        o = self.oracle(segs, M.qz3)
        obs = [("area of a curved region is not exact", z3.Or(zraw(tr, out["area"]) != o[0], zraw(tr, out["m"][0]) != o[0]), {})]
        return obs

    def info_obligations(self, tr, out):
        return []

    def on_raise(self, exc, func, line):
        return "integration raised " + exc

    def confirm(self, name, xs, outcome, exc):
        if name.startswith("integration raised"):
            return exc is not None, str(exc)
        if outcome is None:
            return False, str(exc)
        if sorted(outcome["degrees"]) != sorted(self.degrees):
            return False, "degree-reduced"
        o = self.oracle(self.ctrl(xs), M.qfrac)
        return val(outcome["area"]) != o[0], f"degrees {self.degrees} ctrl {[str(x) for x in xs]}: area {outcome['area']} exact {o[0]}"

    def signature(self, name, xs, outcome, exc):
        return {"name": name}


def specs(tier):
    Mo = "checks.c04"
    out = []
    for n, order in [(3, 4), (4, 4), (5, 3), (3, "high")] if tier == "quick" else [(3, 6), (4, 6), (5, 5), (6, 4), (7, 3), (8, 2), (3, "high"), (4, "high")]:
        out.append(dict(module=Mo, scenario="PolyMoments", params=dict(n=n, order=order), weight=n * (order if isinstance(order, int) else 8)))
    for s in ["hollow", "two", "inv:two", "framedot", "cw:penta"] + (["inv:hollow", "inv:framedot", "hollow2", "ell", "you"] if tier != "quick" else []):
        out.append(dict(module=Mo, scenario="CompositeMoments", params=dict(shape=s, order=3 if tier == "quick" else 4)))
    for degs in [(2, 1), (2, 2), (3, 1), (1, 2, 1)] + ([(3, 3), (3, 2), (2, 2, 2), (3, 1, 2)] if tier != "quick" else []):
        out.append(dict(module=Mo, scenario="CurvedMoments", params=dict(degrees=list(degs)), time_budget=300 if tier == "quick" else 600))
    return out


def main(tier, seed):
    from checks.common import Runner

    r = Runner("C04", tier, seed)
    r.run_specs(specs(tier))
    return r.finish(
        explanation="IntegrateShape.polynomial/area/float executed under SYMX on polygons with all vertices symbolic (one branch-free path): z3 proves that "
        "the executed arithmetic (raw expression DAG incl. the Newton-Cotes nodes/weights and the Green divisor) equals the exact term-wise integral, for all "
        "vertex positions and all exponents up to the stated order; complements report minus the value; composite catalogue shapes translated symbolically; "
        "closed chains with quadratic/cubic pieces and symbolic control points: exact area.",
        assumptions=["higher moments on curved boundaries ('quadrature accuracy') are not a solver statement: outside", "orders: see families"],
    )
