"""Boolean operators / containment on operands with *quadratic* boundary pieces.

The crossing search of the library is a Newton iteration (outside the symbolic fragment, DESIGN
section 7), so the operands are concrete here and the real operator runs on one path; what the
solver decides is the statement over **all points of the plane**: with the query point p free,
z3 (QF_NRA, degree 2, two variables) decides that the region bounded by the returned pieces is
the Boolean combination of the operand regions for every p outside an eps-band of the operand
boundaries (`oracles/curved.py`: chord-polygon parity xor caps  l1 > 0, l1^2 < 4 l0 l2).
The bound is the list of operand pairs and placements, stated in the evidence."""
from __future__ import annotations

from fractions import Fraction as F

import z3

from oracles import curved as C
from oracles import region as R
from symx.core import Sym

EPS = F(1, 10**5)

# closed chains of straight pieces and quadratic arcs (control points)
CHAINS = {
    "lens": [[(0, 0), (2, -2), (4, 0)], [(4, 0), (2, 1), (0, 0)]],
    "dome": [[(0, 0), (4, 0)], [(4, 0), (2, 3), (0, 0)]],
    "pill": [[(0, 0), (4, 0)], [(4, 0), (6, 1), (4, 2)], [(4, 2), (0, 2)], [(0, 2), (-2, 1), (0, 0)]],
    "blob": [[(2, 0), (2, 2), (0, 2)], [(0, 2), (-2, 2), (-2, 0)], [(-2, 0), (-2, -2), (0, -2)], [(0, -2), (2, -2), (2, 0)]],
    "bite": [[(0, 0), (4, 0)], [(4, 0), (4, 3)], [(4, 3), (2, 1), (0, 3)], [(0, 3), (0, 0)]],
    "sq2": [[(0, 0), (2, 0)], [(2, 0), (2, 2)], [(2, 2), (0, 2)], [(0, 2), (0, 0)]],
    "sq1": [[(0, 0), (1, 0)], [(1, 0), (1, 1)], [(1, 1), (0, 1)], [(0, 1), (0, 0)]],
    "slab": [[(0, 0), (1, 0)], [(1, 0), (1, 6)], [(1, 6), (0, 6)], [(0, 6), (0, 0)]],
    "tri": [[(0, 0), (3, 0)], [(3, 0), (1, 2)], [(1, 2), (0, 0)]],
    # pentagon whose lowest vertex dips into the cap of the lower arc of `lens` (placed at (0,0)): the chord between the two crossings of
    # that arc lies inside it, the arc between them does not
    "vee": [[(-1, F(-3, 10)), (2, F(-3, 5))], [(2, F(-3, 5)), (5, F(-3, 10))], [(5, F(-3, 10)), (5, 3)], [(5, 3), (-1, 3)], [(-1, 3), (-1, F(-3, 10))]],
}

# (A, B, shift of B, scale of B): placements with transversal crossings only, vertices clear of the other boundary
CONFIGS = [
    ("lens", "sq1", ("3/2", "-3/5"), 1), ("lens", "sq2", ("1", "-6/5"), 1), ("lens", "slab", ("3/2", "-3"), 1), ("lens", "tri", ("1/2", "-1/3"), 1),
    ("lens", "vee", ("0", "0"), 1), ("dome", "sq2", ("3", "1/2"), 1), ("dome", "sq2", ("1", "-1"), 1), ("pill", "slab", ("1", "-2"), 1),
    ("pill", "sq2", ("4", "1/2"), 1), ("blob", "sq2", ("1/2", "1/3"), 1), ("blob", "sq2", ("-1", "-1"), 1), ("blob", "lens", ("-1", "1/10"), "1/2"),
    ("blob", "lens", ("0", "1/4"), 1), ("bite", "sq2", ("1", "3/2"), 1), ("bite", "lens", ("1/4", "2"), 1), ("lens", "lens", ("1", "1/5"), 1),
    ("dome", "blob", ("2", "5/4"), "1/2"), ("blob", "vee", ("-2", "1/3"), "1/2"), ("pill", "lens", ("3", "1/2"), 1), ("bite", "blob", ("2", "11/4"), "1/2"),
]

BIN = {"|": lambda a, b: a | b, "&": lambda a, b: a & b, "-": lambda a, b: a - b, "^": lambda a, b: a ^ b}
ZBIN = {"|": lambda a, b: z3.Or(a, b), "&": lambda a, b: z3.And(a, b), "-": lambda a, b: z3.And(a, z3.Not(b)), "^": lambda a, b: z3.Xor(a, b)}
XBIN = {"|": lambda a, b: a or b, "&": lambda a, b: a and b, "-": lambda a, b: a and not b, "^": lambda a, b: a != b}


def numbers(name, shift, num, scale=1):
    """the numbers handed to the library: Fractions, or the floats nearest to them"""
    tx, ty = F(shift[0]), F(shift[1])
    sc = F(scale)
    out = []
    for pc in CHAINS[name]:
        row = []
        for x, y in pc:
            qx, qy = sc * F(x) + tx, sc * F(y) + ty
            row.append((float(qx), float(qy)) if num == "float" else (qx, qy))
        out.append(row)
    return out


def build(pieces, inverted=False):
    from shapepy import JordanCurve, SimpleShape

    S = SimpleShape(JordanCurve.from_ctrlpoints([list(pc) for pc in pieces]))
    return ~S if inverted else S


def node(pieces, inverted=False):
    n = C.curved_node([tuple((C.exact(x), C.exact(y)) for x, y in pc) for pc in pieces])
    return ("not", n) if inverted else n


def crossing_kind(ra, rb):
    """'none' / 'rational' / 'irrational' / 'arc-arc': are the parameters at which an arc of one operand meets a straight
    piece of the other rational numbers? (exact: discriminant of the quadratic is a rational square)"""
    from math import isqrt

    def is_sq(q):
        q = F(q)
        if q < 0:
            return False
        n, d = q.numerator, q.denominator
        return isqrt(n) ** 2 == n and isqrt(d) ** 2 == d

    kind = "none"
    for P, Q in ((ra, rb), (rb, ra)):
        for na in C.nodes_of(P):
            for arc in na[1]:
                if len(arc) != 3:
                    continue
                for nb in C.nodes_of(Q):
                    for pc in nb[1]:
                        if len(pc) == 3:
                            # control boxes overlap: a crossing search between two arcs takes place
                            bx = lambda q: (min(p[0] for p in q), max(p[0] for p in q), min(p[1] for p in q), max(p[1] for p in q))
                            a, b = bx(arc), bx(pc)
                            if a[0] <= b[1] and b[0] <= a[1] and a[2] <= b[3] and b[2] <= a[3] and kind == "none":
                                kind = "arc-arc"
                            continue
                        a, b = pc
                        c = [(b[0] - a[0]) * (q[1] - a[1]) - (b[1] - a[1]) * (q[0] - a[0]) for q in arc]
                        A2, B2, C2 = c[0] - 2 * c[1] + c[2], 2 * (c[1] - c[0]), c[0]
                        disc = B2 * B2 - 4 * A2 * C2
                        if A2 == 0:
                            if B2 != 0 and 0 <= -C2 / B2 <= 1 and kind == "none":  # a single rational parameter (whether it lies on the segment is not needed for the classification)
                                kind = "rational"
                            continue
                        if disc < 0:
                            continue
                        # is a root inside [0,1] and on the segment?  decide with floats (classification only)
                        import math

                        for sg in (1, -1):
                            t = (-float(B2) + sg * math.sqrt(float(disc))) / (2 * float(A2))
                            if -1e-9 <= t <= 1 + 1e-9:
                                x = (1 - t) ** 2 * float(arc[0][0]) + 2 * t * (1 - t) * float(arc[1][0]) + t * t * float(arc[2][0])
                                y = (1 - t) ** 2 * float(arc[0][1]) + 2 * t * (1 - t) * float(arc[1][1]) + t * t * float(arc[2][1])
                                dx, dy = float(b[0] - a[0]), float(b[1] - a[1])
                                s = ((x - float(a[0])) * dx + (y - float(a[1])) * dy) / (dx * dx + dy * dy)
                                if -1e-9 <= s <= 1 + 1e-9:
                                    if not is_sq(disc):
                                        return "irrational"
                                    kind = "rational"
    return kind


IN_EXTRA = [("lens", "sq2", ("5", "5"), 1), ("blob", "sq1", ("1/4", "1/4"), 1), ("pill", "sq1", ("1", "1/2"), 1)]


def containment_specs(tier):
    """`B in A` / `A in B` for the curved placements (and complements): C03"""
    quick = tier == "quick"
    confs = CONFIGS + IN_EXTRA
    if quick:
        confs = [c for c in confs if (c[0], c[1], c[2][0]) in {("lens", "sq1", "3/2"), ("blob", "sq2", "-1"), ("blob", "lens", "-1"), ("lens", "vee", "0"), ("bite", "blob", "2"), ("lens", "sq2", "5"),
                                                               ("pill", "sq1", "1"), ("dome", "sq2", "3")}]
    out = []
    for A, B, sh, sc in confs:
        out.append(dict(module="checks.curvedops", scenario="CurvedOps", params=dict(A=A, B=B, op="&", shift=list(sh), scaleB=str(sc), num="float", what="in"), time_budget=300))
    for A, B, sh, sc in (confs if quick else CONFIGS[:6] + IN_EXTRA):
        if quick and (A, B) not in {("lens", "sq2"), ("lens", "sq1"), ("pill", "sq1")}:
            continue
        out.append(dict(module="checks.curvedops", scenario="CurvedOps", params=dict(A=A, B=B, op="&", shift=list(sh), scaleB=str(sc), num="float", what="in", invA=True), time_budget=300))
        out.append(dict(module="checks.curvedops", scenario="CurvedOps", params=dict(A=A, B=B, op="&", shift=list(sh), scaleB=str(sc), num="float", what="in", invB=True), time_budget=300))
    return out


class CurvedOps:
    """R = A op B for concrete operands bounded by straight pieces and quadratic arcs; p free"""

    nfree = 2
    plain = True  # no symbolic input reaches the library: it runs without stubs
    ob_timeout_ms = 120000
    replay_timeout = 1500
    path_timeout = 1500

    def __init__(self, A, B, op, shift=("0", "0"), num="float", invA=False, invB=False, scaleB=1, what="op", wf=False):
        self.wf = wf
        self.A, self.B, self.op, self.shift, self.num = A, B, op, [str(s) for s in shift], num
        self.invA, self.invB, self.scaleB, self.what = invA, invB, scaleB, what
        self.names = ["px", "py"]

    def domain(self, xs):
        return []

    def nums(self):
        return numbers(self.A, ("0", "0"), self.num), numbers(self.B, self.shift, self.num, self.scaleB)

    def regions(self):
        na, nb = self.nums()
        return node(na, self.invA), node(nb, self.invB)

    def run(self, xs):
        na, nb = self.nums()
        A, B = build(na, self.invA), build(nb, self.invB)
        if self.what == "in":
            return {"ans": bool(B in A), "ans_rev": bool(A in B)}
        Rs = BIN[self.op](A, B)
        reg = C.region_of_shape(Rs)
        closed = all(C.closed_chain(n[1]) for n in C.nodes_of(reg))
        A2, B2 = build(na, self.invA), build(nb, self.invB)
        kinds = {"R": type(Rs).__name__, "ncurves": len(C.nodes_of(reg)), "npieces": [len(n[1]) for n in C.nodes_of(reg)]}
        out = {"_reg": reg, "closed": closed, "kinds": kinds, "_regA_after": C.region_of_shape(A), "_regB_after": C.region_of_shape(B)}
        if self.wf:
            from checks.c06 import structure

            out["structure"] = structure(Rs)
            out["inv_kind"] = type(~Rs).__name__
            tiny = F(1, 10**9)
            out["zero_piece"] = any(all(abs(q[0] - pc[0][0]) <= tiny and abs(q[1] - pc[0][1]) <= tiny for q in pc) for n in C.nodes_of(reg) for pc in n[1])
        return out

    def desc(self):
        return f"{'~' if self.invA else ''}{self.A} {self.op if self.what == 'op' else 'contains'} {'~' if self.invB else ''}{self.B}*{self.scaleB}+({self.shift[0]}, {self.shift[1]}) [{self.num}]"

    def oblige(self, tr, out):
        px, py = Sym.var(0, 0), Sym.var(1, 0)
        ra, rb = self.regions()
        if self.what == "in":
            M = C.extent([ra, rb]) + 1
            off = z3.And(C.z_off_boundary(px, py, [ra, rb], F(1, 10**9), M), C.z_off_chords(px, py, [ra, rb]))
            obs = []
            for key, inner, outer in (("ans", rb, ra), ("ans_rev", ra, rb)):
                escapes = z3.And(off, R.z_in(inner, px, py), z3.Not(R.z_in(outer, px, py)))
                if out[key]:
                    obs.append((f"`in` says True but a point of the inner region is outside the outer one [{key}]", escapes, {}))
                else:
                    # no explored input: the universal statement "no point escapes" is one more closed query
                    s = z3.Solver()
                    s.set("timeout", self.ob_timeout_ms)
                    s.add(escapes)
                    r = str(s.check())
                    if r == "unknown":
                        obs.append((f"`in` says False although no point of the inner region is outside the outer one [{key}]", z3.Bool("undecided_escape_query"), {"escape_query": r}))
                    else:
                        obs.append((f"`in` says False although no point of the inner region is outside the outer one [{key}]", z3.BoolVal(r == "unsat"), {"escape_query": r}))
            return obs
        rr = out["_reg"]
        M = C.extent([ra, rb, rr]) + 1
        off = z3.And(C.z_off_boundary(px, py, [ra, rb], EPS, M), C.z_off_chords(px, py, [ra, rb, rr, out["_regA_after"], out["_regB_after"]]))
        want = ZBIN[self.op](R.z_in(ra, px, py), R.z_in(rb, px, py))
        obs = [("result region differs from the set-theoretic one (curved operands)", z3.And(off, R.z_in(rr, px, py) != want), {}),
               ("a result curve is not a closed chain", z3.BoolVal(not out["closed"]), {}),
               ("an operand denotes a different region after the operator (curved operands)",
                z3.And(off, z3.Or(R.z_in(out["_regA_after"], px, py) != R.z_in(ra, px, py), R.z_in(out["_regB_after"], px, py) != R.z_in(rb, px, py))), {})]
        if self.wf:
            obs = self.wellformed(out, rr, off, px, py)
        return obs

    # ---- C06: structure of a result with curved sides (query point free)
    def wf_formulas(self, out, rr, zin, conj, neg, disj, true, false):
        """(name, formula) pairs built from membership terms zin(node) so that the same code yields z3 formulas and exact truth values"""
        from checks.c06 import INV_KIND

        kind = {"EmptyShape": "Empty", "WholeShape": "Whole", "SimpleShape": "Simple", "ConnectedShape": "Connected", "DisjointShape": "Disjoint"}[out["kinds"]["R"]]
        inv = {"EmptyShape": "Empty", "WholeShape": "Whole", "SimpleShape": "Simple", "ConnectedShape": "Connected", "DisjointShape": "Disjoint"}[out["inv_kind"]]
        st = out["structure"]
        res = [("chain not closed by shared junction points (curved result)", false if (st["closed_by_identity"] and out["closed"]) else true),
               ("kind of ~result contradicts the documented table (curved result)", false if inv in INV_KIND[kind] else true),
               ("zero-length boundary piece (curved result)", true if out["zero_piece"] else false)]
        if kind == "Simple":
            res.append(("SimpleShape with several boundaries (curved result)", false if st.get("simple_one_boundary") else true))

        def connected_bad(creg):
            subs = creg[1]
            pos = [n for n in subs if n[0] == "curved" and n[2]]
            hol = [n for n in subs if n[0] == "curved" and not n[2]]
            bad = [true] if (len(pos) > 1 or len(pos) + len(hol) != len(subs)) else []
            for h in hol:
                if pos:
                    bad.append(conj(neg(zin(h)), neg(zin(pos[0]))))  # a point of the hole's bounded side outside the outer boundary
                for h2 in hol:
                    if h2 is not h:
                        bad.append(conj(neg(zin(h)), neg(zin(h2))))  # two holes overlap
            return bad

        if kind == "Connected":
            res.append(("ConnectedShape is not one outer/unbounded region minus separate holes (curved result)", disj(connected_bad(rr))))
        if kind == "Disjoint":
            subs = rr[1]
            bad = [true] if len(subs) < 2 else []
            for sub in subs:
                if sub[0] == "and":
                    bad += connected_bad(sub)
            for i in range(len(subs)):
                for j in range(i + 1, len(subs)):
                    bad.append(conj(zin(subs[i]), zin(subs[j])))
            res.append(("DisjointShape components overlap or are malformed (curved result)", disj(bad)))
        return res

    def wellformed(self, out, rr, off, px, py):
        T, Fl = z3.BoolVal(True), z3.BoolVal(False)
        fs = self.wf_formulas(out, rr, lambda n: R.z_in(n, px, py), lambda *a: z3.And(*a), z3.Not, lambda xs: z3.Or(xs) if xs else Fl, T, Fl)
        return [(name, z3.And(off, f) if not (z3.is_true(f) or z3.is_false(f)) else f, {}) for name, f in fs]

    def on_raise(self, exc, func, line):
        return f"curved operator raised {exc}"

    def on_budget(self):
        return "curved operator did not return within the path budget"

    def raise_formula(self, tr):
        return z3.BoolVal(True)

    def confirm(self, name, xs, outcome, exc):
        if name.startswith("curved operator raised") or name.startswith("curved operator did not return"):
            return exc is not None, f"{self.desc()}: {exc}"
        if outcome is None:
            return False, f"plain run raised {exc}"
        ra, rb = self.regions()
        p = (F(xs[0]), F(xs[1]))
        if self.what == "in":
            key = "ans" if "[ans]" in name else "ans_rev"
            inner, outer = (rb, ra) if key == "ans" else (ra, rb)
            M = C.extent([ra, rb]) + 1
            if "says True" in name:
                ok = C.x_off_boundary(p, [ra, rb], F(1, 10**9), M) and R.x_in(inner, p) and not R.x_in(outer, p)
                return bool(outcome[key] and ok), f"{self.desc()}: `in` says {outcome[key]} [{key}], p=({p[0]}, {p[1]}) lies in the inner region and outside the outer one: {ok}"
            px, py = z3.Real("px"), z3.Real("py")
            from symx import core

            tr = core.Tracer(["px", "py"])
            core.set_tracer(tr)
            tr.begin([F(0), F(0)])
            sx, sy = Sym.var(0, 0), Sym.var(1, 0)
            s = z3.Solver()
            s.set("timeout", self.ob_timeout_ms)
            s.add(C.z_off_boundary(sx, sy, [ra, rb], F(1, 10**9), M), C.z_off_chords(sx, sy, [ra, rb]), R.z_in(inner, sx, sy), z3.Not(R.z_in(outer, sx, sy)))
            r = str(s.check())
            return bool((not outcome[key]) and r == "unsat"), f"{self.desc()}: `in` says {outcome[key]} [{key}]; exists an escaping point: {r}"
        rr = outcome["_reg"]
        M = C.extent([ra, rb, rr]) + 1
        if name.startswith("a result curve"):
            return not outcome["closed"], f"{self.desc()}: {outcome['kinds']}"
        if name.endswith("(curved result)"):
            offp = C.x_off_boundary(p, [ra, rb], EPS, M) and C.x_off_chords(p, [ra, rb, rr, outcome["_regA_after"], outcome["_regB_after"]])
            fs = dict(self.wf_formulas(outcome, rr, lambda n: R.x_in(n, p), lambda *a: all(a), lambda a: not a, lambda xs: any(xs), True, False))
            v = fs.get(name, False)
            structural = name.startswith(("chain not closed", "kind of", "zero-length", "SimpleShape with"))
            return bool(v and (structural or offp)), f"{self.desc()}: result {outcome['kinds']} structure {outcome['structure']} ~result {outcome['inv_kind']}; p=({p[0]}, {p[1]})"
        off = C.x_off_boundary(p, [ra, rb], EPS, M) and C.x_off_chords(p, [ra, rb, rr, outcome["_regA_after"], outcome["_regB_after"]])
        a, b = R.x_in(ra, p), R.x_in(rb, p)
        if name.startswith("an operand denotes"):
            a2, b2 = R.x_in(outcome["_regA_after"], p), R.x_in(outcome["_regB_after"], p)
            return bool(off and (a != a2 or b != b2)), f"{self.desc()}: p=({p[0]}, {p[1]}): A {a}->{a2}, B {b}->{b2} after the call"
        truth = XBIN[self.op](a, b)
        got = R.x_in(rr, p)
        return bool(off and got != truth), f"{self.desc()}: p=({p[0]}, {p[1]}): in A {a}, in B {b}, set truth {truth}, region bounded by the returned pieces says {got}; result {outcome['kinds']}"

    def signature(self, name, xs, outcome, exc):
        sig = {"name": name.split(" raised")[0] if "raised" in name else name.split(" [")[0], "exact_rational_operands": self.num == "frac"}
        if exc is not None:
            sig["exc"] = exc["exc"]
            sig["func"] = exc["where"][1]
            ra, rb = self.regions()
            sig["crossing_parameters"] = crossing_kind(ra, rb)
        return sig


class CurvedIntersect:
    """JordanCurve.intersection on concrete curves with quadratic pieces (C14).  The crossing search is a Newton iteration,
    so the curves are concrete and the library runs unstubbed; the solver decides *completeness* over all parameter pairs:
    for every pair of pieces, is there (u, v) in [d, 1-d]^2 with A_i(u) = B_j(v) that is farther than d from every
    reported (i, j, u*, v*)?  (QF_NRA, two variables, degree <= 2.)  Soundness of each reported tuple (ranges, the two
    points agree to 1e-6) and the swap law are evaluated exactly."""

    nfree = 2
    plain = True
    ob_timeout_ms = 60000
    replay_timeout = 600
    path_timeout = 600
    DELTA = F(1, 1000)

    def __init__(self, A, B, shift=("0", "0"), scaleB=1, num="float"):
        self.A, self.B, self.shift, self.scaleB, self.num = A, B, [str(s) for s in shift], scaleB, num
        self.names = ["u", "v"]

    def domain(self, xs):
        return []

    def nums(self):
        return numbers(self.A, ("0", "0"), self.num), numbers(self.B, self.shift, self.num, self.scaleB)

    def curves(self):
        from shapepy import JordanCurve

        na, nb = self.nums()
        return JordanCurve.from_ctrlpoints([list(pc) for pc in na]), JordanCurve.from_ctrlpoints([list(pc) for pc in nb])

    def run(self, xs):
        JA, JB = self.curves()
        res = JA.intersection(JB)
        JA2, JB2 = self.curves()
        rev = JB2.intersection(JA2)
        JA3, JB3 = self.curves()
        amp = JA3 & JB3
        tup = lambda r: [[int(a), int(b), None if u is None else C.exact(u), None if v is None else C.exact(v)] for a, b, u, v in r]
        return {"inter": tup(res), "swapped": tup(rev), "and": tup(amp)}

    def pieces(self):
        na, nb = self.nums()
        ex = lambda rows: [[(C.exact(x), C.exact(y)) for x, y in pc] for pc in rows]
        return ex(na), ex(nb)

    @staticmethod
    def point(pc, t):
        from oracles import bezier as BZ

        return BZ.bernstein([q[0] for q in pc], t), BZ.bernstein([q[1] for q in pc], t)

    def desc(self):
        return f"{self.A} x {self.B}*{self.scaleB}+({self.shift[0]}, {self.shift[1]}) [{self.num}]"

    def sound(self, out):
        """exact evaluation of every reported tuple: indices and parameters in range, the two points agree to 1e-6; the
        swapped call reports the swapped tuples (parameters to 1e-6)"""
        pa, pb = self.pieces()
        bad = []
        for key in ("inter", "and"):
            for a, b, u, v in out[key]:
                if not (0 <= a < len(pa) and 0 <= b < len(pb)) or u is None or v is None or not (0 <= u <= 1 and 0 <= v <= 1):
                    bad.append(f"{key}: tuple ({a}, {b}, {u}, {v}) out of range")
                    continue
                p, q = self.point(pa[a], u), self.point(pb[b], v)
                if abs(p[0] - q[0]) > R.TOL or abs(p[1] - q[1]) > R.TOL:
                    bad.append(f"{key}: A_{a}({float(u):.9f}) and B_{b}({float(v):.9f}) are {float(abs(p[0]-q[0])+abs(p[1]-q[1])):.2e} apart")
        sw = [(b, a, v, u) for a, b, u, v in out["swapped"]]
        for a, b, u, v in out["inter"]:
            if u is not None and not any(a == a2 and b == b2 and abs(u - u2) <= R.TOL and abs(v - v2) <= R.TOL for a2, b2, u2, v2 in sw if u2 is not None):
                bad.append(f"tuple ({a}, {b}, {float(u):.9f}, {float(v):.9f}) has no counterpart in the swapped call")
        if len(sw) != len(out["inter"]):
            bad.append(f"swapped call reports {len(sw)} tuples, direct call {len(out['inter'])}")
        return bad

    def oblige(self, tr, out):
        u, v = Sym.var(0, 0), Sym.var(1, 0)
        pa, pb = self.pieces()
        d = self.DELTA
        obs = [("a reported crossing is wrong (range, distance of the two points, swap law)", z3.BoolVal(bool(self.sound(out))), {})]
        for key in ("inter", "and"):
            missed = []
            for i, A in enumerate(pa):
                for j, B in enumerate(pb):
                    # quick exact rejection: control boxes apart
                    bx = lambda q: (min(p[0] for p in q), max(p[0] for p in q), min(p[1] for p in q), max(p[1] for p in q))
                    a, b = bx(A), bx(B)
                    if a[1] < b[0] or b[1] < a[0] or a[3] < b[2] or b[3] < a[2]:
                        continue
                    P, Q = self.point(A, u), self.point(B, v)
                    far = [R.zor(u - us > d, us - u > d, v - vs > d, vs - v > d) for a_, b_, us, vs in out[key] if a_ == i and b_ == j and us is not None]
                    missed.append(R.zand(u >= d, u <= 1 - d, v >= d, v <= 1 - d, P[0] - Q[0] == 0, P[1] - Q[1] == 0, *far))
            obs.append((f"a crossing of two pieces is not reported [{key}]", z3.Or(missed) if missed else z3.BoolVal(False), {"pairs": len(missed)}))
        return obs

    def on_raise(self, exc, func, line):
        return "curved intersection raised " + exc

    def raise_formula(self, tr):
        return z3.BoolVal(True)

    def confirm(self, name, xs, outcome, exc):
        if name.startswith("curved intersection raised"):
            return exc is not None, f"{self.desc()}: {exc}"
        if outcome is None:
            return False, f"plain run raised {exc}"
        if name.startswith("a reported crossing is wrong"):
            bad = self.sound(outcome)
            return bool(bad), f"{self.desc()}: " + "; ".join(bad[:3])
        key = "inter" if "[inter]" in name else "and"
        # the witness (u, v) is algebraic in general: re-decide the existence exactly on this run's tuples
        from symx import core

        tr = core.Tracer(["u", "v"])
        core.set_tracer(tr)
        tr.begin([F(0), F(0)])
        obs = dict((n, f) for n, f, _ in self.oblige(tr, outcome))
        s = z3.Solver()
        s.set("timeout", self.ob_timeout_ms)
        s.add(obs[name])
        r = str(s.check())
        txt = ""
        if r == "sat":
            m = s.model()
            txt = f" e.g. (u, v) ~ ({core.model_value(m, tr.zvars[0]).limit_denominator(10**6)}, {core.model_value(m, tr.zvars[1]).limit_denominator(10**6)})"
        return r == "sat", f"{self.desc()}: reported {[(a, b, float(u), float(v)) for a, b, u, v in outcome[key] if u is not None]}; a crossing away from all of them exists: {r}{txt}"

    def signature(self, name, xs, outcome, exc):
        sig = {"name": name.split(" raised")[0] if "raised" in name else name.split(" [")[0], "exact_rational_operands": self.num == "frac"}
        if exc is not None:
            sig["exc"] = exc["exc"]
        return sig
