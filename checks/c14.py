"""C14 Curve intersection reports exactly the crossings, with the documented encoding."""
from __future__ import annotations

from fractions import Fraction as F

import z3

from checks import geom
from oracles import region as R
from shapepy import JordanCurve
from symx.core import Sym, val


def pts(name, tx=0, ty=0):
    return geom.tr_pts(geom.POLY[name], tx, ty)


class Intersect:
    """A.intersection(B(t), equal_beziers, end_points) for all flag combinations, B.intersection(A)
    and A & B, polygons A and B(t) = B + t*(3,1)"""

    nfree = 0
    max_degree = 2

    def __init__(self, A, B, lim=3, direction=(3, 1), premove=False, dof=1, scale=1):
        """premove: the second curve is first built far away, intersected once, and then moved in place to its
        position (an intersection must not depend on what the curve was asked before)"""
        self.A, self.B, self.lim, self.premove = A, B, lim, premove
        self.dir = (F(direction[0]), F(direction[1]))
        self.dof = dof
        self.scale = F(scale)  # the whole drawing (both curves and the translation) in another unit of length
        if self.scale < 1:  # scaled coordinates must stay representable (Point2D caps denominators at 1e9)
            self.max_witness_den = max(1, int(10**8 * self.scale))
        self.names = ["t"] if dof == 1 else ["tx", "ty"]

    def domain(self, xs):
        return [c for x in xs for c in (x >= -self.lim, x <= self.lim)]

    def shift(self, xs):
        if self.dof == 2:
            return xs[0], xs[1]
        return xs[0] * self.dir[0], xs[0] * self.dir[1]

    def run(self, xs):
        tx, ty = self.shift(xs)
        sc = self.scale
        va, vb = [(sc * x, sc * y) for x, y in pts(self.A)], [(sc * x, sc * y) for x, y in pts(self.B, tx, ty)]
        if self.premove:
            ja = JordanCurve.from_vertices(va)
            jb = JordanCurve.from_vertices([(sc * x, sc * y) for x, y in pts(self.B, tx + 50, ty + 70)])
            ja.intersection(jb)
            jb.intersection(ja)
            jb.move((-50 * sc, -70 * sc))
            ja.move((0, 0))
        else:
            ja, jb = JordanCurve.from_vertices(va), JordanCurve.from_vertices(vb)
        out = {"na": len(ja.segments), "nb": len(jb.segments)}
        for eq in (True, False):
            for ep in (True, False):
                r = ja.intersection(jb, equal_beziers=eq, end_points=ep)
                out[f"r{int(eq)}{int(ep)}"] = [list(e) for e in r]
        out["swapped"] = [list(e) for e in jb.intersection(ja)]
        out["and"] = [list(e) for e in (ja & jb)]
        out["_va"], out["_vb"] = va, vb
        # the harness must itself force the truth values it relies on: interior/end classification
        for e in out["r11"]:
            if e[2] is not None:
                e.append(bool((0 < e[2]) & (e[2] < 1)) or bool((0 < e[3]) & (e[3] < 1)))
            else:
                e.append(None)
        return out

    def oblige(self, tr, out):
        va, vb = out["_va"], out["_vb"]
        na, nb = len(va), len(vb)
        T, Fl = z3.BoolVal(True), z3.BoolVal(False)
        full = out["r11"]
        obs = []
        bad_range, bad_point, none_not_identical = [], [], []
        reported = set()
        for a, b, u, v, interior in full:
            if not (isinstance(a, int) and isinstance(b, int) and 0 <= a < na and 0 <= b < nb):
                bad_range.append(T)
                continue
            a0, a1 = va[a], va[(a + 1) % na]
            b0, b1 = vb[b], vb[(b + 1) % nb]
            if u is None or v is None:
                if not (u is None and v is None):
                    bad_range.append(T)
                # documented: (None, None) marks identical segments only
                same = R.zand(a0[0] == b0[0], a0[1] == b0[1], a1[0] == b1[0], a1[1] == b1[1])
                none_not_identical.append(z3.Not(same))
                continue
            reported.add((a, b))
            bad_range.append(R.zor(u < 0, u > 1, v < 0, v > 1))
            pax, pay = a0[0] + u * (a1[0] - a0[0]), a0[1] + u * (a1[1] - a0[1])
            pbx, pby = b0[0] + v * (b1[0] - b0[0]), b0[1] + v * (b1[1] - b0[1])
            bad_point.append(R.zor(pax != pbx, pay != pby))
        obs.append(("index/parameter out of range", z3.Or(bad_range) if bad_range else Fl, {}))
        obs.append(("reported pair is not a common point", z3.Or(bad_point) if bad_point else Fl, {}))
        obs.append(("(None, None) reported for non-identical segments", z3.Or(none_not_identical) if none_not_identical else Fl, {"count": len(none_not_identical)}))
        missing = []
        for i in range(na):
            for j in range(nb):
                if (i, j) not in reported:
                    missing.append(R.z_proper_cross(va[i], va[(i + 1) % na], vb[j], vb[(j + 1) % nb]))
        obs.append(("a transversal crossing is not reported", z3.Or(missing) if missing else Fl, {}))
        # structural relations between the variants, decided on the path itself (values are path-determined)
        obs.append(("swapping the operands does not swap the tuples", Fl if _same(sorted_key([[b, a, v, u] for a, b, u, v, _ in full]), sorted_key(out["swapped"])) else T, {}))
        want10 = [e[:4] for e in full]
        obs.append(("equal_beziers=False does not filter exactly the (None, None) entries", Fl if _same(sorted_key([e[:4] for e in full if e[2] is not None]), sorted_key(out["r01"])) else T, {}))
        obs.append(("end_points=False does not filter exactly the end-point entries", Fl if _same(sorted_key([e[:4] for e in full if e[2] is None or e[4]]), sorted_key(out["r10"])) else T, {}))
        obs.append(("A & B is not intersection(equal_beziers=False, end_points=False)", Fl if _same(sorted_key(out["r00"]), sorted_key(out["and"])) else T, {}))
        return obs

    def on_raise(self, exc, func, line):
        return "intersection raised " + exc

    def confirm(self, name, xs, outcome, exc):
        t = self.shift(xs)
        desc = f"A={self.A}, B={self.B}+({t[0]}, {t[1]})"
        if name.startswith("intersection raised"):
            return exc is not None, desc + f": {exc}"
        if outcome is None:
            return False, f"plain run raised {exc}"
        va, vb = outcome["_va"], outcome["_vb"]
        na, nb = len(va), len(vb)
        full = outcome["r11"]
        if name == "index/parameter out of range":
            for a, b, u, v, _ in full:
                if not (0 <= a < na and 0 <= b < nb) or (u is None) != (v is None) or (u is not None and not (0 <= u <= 1 and 0 <= v <= 1)):
                    return True, desc + f": entry {(a, b, u, v)}"
            return False, desc
        if name == "reported pair is not a common point":
            for a, b, u, v, _ in full:
                if u is None:
                    continue
                a0, a1, b0, b1 = va[a], va[(a + 1) % na], vb[b], vb[(b + 1) % nb]
                pa = (a0[0] + u * (a1[0] - a0[0]), a0[1] + u * (a1[1] - a0[1]))
                pb = (b0[0] + v * (b1[0] - b0[0]), b0[1] + v * (b1[1] - b0[1]))
                if pa != pb:
                    return True, desc + f": entry {(a, b, str(u), str(v))} gives {pa} != {pb}"
            return False, desc
        if name.startswith("(None, None)"):
            for a, b, u, v, _ in full:
                if u is None:
                    a0, a1, b0, b1 = va[a], va[(a + 1) % na], vb[b], vb[(b + 1) % nb]
                    if (a0, a1) != (b0, b1):
                        return True, desc + f": ({a}, {b}, None, None) but segments {a0}-{a1} and {b0}-{b1} differ"
            return False, desc
        if name == "a transversal crossing is not reported":
            rep = {(a, b) for a, b, u, v, _ in full if u is not None}
            for i in range(na):
                for j in range(nb):
                    if (i, j) not in rep and R.x_proper_cross(va[i], va[(i + 1) % na], vb[j], vb[(j + 1) % nb]):
                        return True, desc + f": edges {i} and {j} cross but are not reported; result {[[str(x) for x in e[:4]] for e in full]}"
            return False, desc
        if name.startswith("swapping"):
            return not _same(sorted_key([[b, a, v, u] for a, b, u, v, _ in full]), sorted_key(outcome["swapped"])), desc + f": {full} vs {outcome['swapped']}"
        if name.startswith("equal_beziers=False"):
            return not _same(sorted_key([e[:4] for e in full if e[2] is not None]), sorted_key(outcome["r01"])), desc + f": {outcome['r01']}"
        if name.startswith("end_points=False"):
            return not _same(sorted_key([e[:4] for e in full if e[2] is None or e[4]]), sorted_key(outcome["r10"])), desc + f": full={full} filtered={outcome['r10']}"
        if name.startswith("A & B"):
            return not _same(sorted_key(outcome["r00"]), sorted_key(outcome["and"])), desc
        return False, "unknown " + name

    def signature(self, name, xs, outcome, exc):
        return {"name": name}


CURVES = {
    "qa": [(0, 0), (2, 3), (4, 0)],
    "qb": [(0, 2), (2, -2), (4, 2)],
    "ca": [(0, 0), (1, 3), (3, -3), (4, 0)],
    "la": [(0, 1), (4, 1)],
}


class FilterStage:
    """the two filters applied to the output of the curved crossing search (whose Newton iteration is outside the
    encodable fragment: its output is *havocked* into arbitrary parameter pairs): filter_distance keeps a pair only if
    the two curve points are within the tolerance, filter_parameters drops a pair only if it is within the tolerance of
    an earlier one; concrete curves, symbolic pairs (u, v), (u2, v2)"""

    nfree = 0
    max_degree = 6
    ob_timeout_ms = 20000

    def __init__(self, A, B):
        self.A, self.B = A, B
        self.names = ["u", "v", "u2", "v2"]

    def domain(self, xs):
        cs = []
        for x in xs:
            cs += [x >= 0, x <= 1]
        return cs

    def seed(self):
        return [F(1, 3), F(2, 5), F(3, 4), F(1, 7)]

    def curves(self):
        from shapepy import PlanarCurve

        return PlanarCurve(CURVES[self.A]), PlanarCurve(CURVES[self.B])

    def run(self, xs):
        from shapepy.curve import Intersection

        ca, cb = self.curves()
        pairs = [(xs[0], xs[1]), (xs[2], xs[3])]
        kept_d = Intersection.filter_distance(ca, cb, pairs, 1e-6)
        kept_p = Intersection.filter_parameters(pairs, 1e-6)
        return {"kept_d": [bool(any(p is q for q in kept_d)) for p in pairs], "n_d": len(kept_d), "kept_p": [bool(any(p is q for q in kept_p)) for p in pairs], "n_p": len(kept_p)}

    def dist2(self, u, v):
        from oracles import bezier as BZ

        a, b = CURVES[self.A], CURVES[self.B]
        dx = BZ.bernstein([F(p[0]) for p in a], u) - BZ.bernstein([F(p[0]) for p in b], v)
        dy = BZ.bernstein([F(p[1]) for p in a], u) - BZ.bernstein([F(p[1]) for p in b], v)
        return dx * dx + dy * dy

    def oblige(self, tr, out):
        T, Fl = z3.BoolVal(True), z3.BoolVal(False)
        u, v, u2, v2 = [Sym.var(i, 0) for i in range(4)]
        hi, lo = (F(1, 10**6) * F(1001, 1000)) ** 2, (F(1, 10**6) * F(999, 1000)) ** 2
        bad = []
        for kept, (a, b) in zip(out["kept_d"], ((u, v), (u2, v2))):
            d2 = self.dist2(a, b)
            bad.append(R.zb(d2 >= hi) if kept else R.zb(d2 < lo))
        obs = [("filter_distance keeps a pair farther apart than the tolerance or drops a pair within it", z3.Or(bad), {}),
               ("filter_distance changed the number of pairs inconsistently", Fl if out["n_d"] == sum(out["kept_d"]) else T, {})]
        pd2 = (u - u2) * (u - u2) + (v - v2) * (v - v2)
        tol2 = F(1e-6) ** 2
        badp = [z3.BoolVal(not out["kept_p"][0])]
        badp.append(R.zb(pd2 < tol2) if out["kept_p"][1] else R.zb(pd2 >= tol2))
        obs.append(("filter_parameters drops a distinct pair or keeps a duplicate", z3.Or(badp), {}))
        return obs

    def on_raise(self, exc, func, line):
        return "filter raised " + exc

    def confirm(self, name, xs, outcome, exc):
        desc = f"curves {self.A}, {self.B}, pairs ({xs[0]}, {xs[1]}), ({xs[2]}, {xs[3]})"
        if name.startswith("filter raised"):
            return exc is not None, desc + f": {exc}"
        if outcome is None:
            return False, str(exc)
        hi, lo = (F(1, 10**6) * F(1001, 1000)) ** 2, (F(1, 10**6) * F(999, 1000)) ** 2
        if name.startswith("filter_distance keeps"):
            for kept, (a, b) in zip(outcome["kept_d"], ((xs[0], xs[1]), (xs[2], xs[3]))):
                d2 = self.dist2(a, b)
                if (kept and d2 >= hi) or (not kept and d2 < lo):
                    return True, desc + f": kept={kept}, squared distance {float(d2)}"
            return False, desc
        if name.startswith("filter_distance changed"):
            return outcome["n_d"] != sum(outcome["kept_d"]), desc
        pd2 = (xs[0] - xs[2]) ** 2 + (xs[1] - xs[3]) ** 2
        tol2 = F(1e-6) ** 2
        bad = (not outcome["kept_p"][0]) or (outcome["kept_p"][1] and pd2 < tol2) or (not outcome["kept_p"][1] and pd2 >= tol2)
        return bad, desc + f": kept {outcome['kept_p']}, squared parameter distance {float(pd2)}"

    def signature(self, name, xs, outcome, exc):
        return {"name": name}


def sorted_key(entries):
    def k(e):
        return (e[0], e[1], val(e[2]) if e[2] is not None else F(-1), val(e[3]) if e[3] is not None else F(-1))

    return sorted(([e[0], e[1], e[2], e[3]] for e in entries), key=k)


def _same(x, y):
    """identical entries: indices equal, parameters identical polynomials (or both None)"""
    if len(x) != len(y):
        return False
    for e, f in zip(x, y):
        if e[0] != f[0] or e[1] != f[1]:
            return False
        for p, q in ((e[2], f[2]), (e[3], f[3])):
            if (p is None) != (q is None):
                return False
            if p is None:
                continue
            if isinstance(p, Sym) or isinstance(q, Sym):
                from symx.core import lift

                p2, q2 = lift(p), lift(q)
                if not (p2.n == q2.n and p2.d == q2.d):
                    return False
            elif p != q:
                return False
    return True


PAIRS_QUICK = [("square", "square"), ("penta", "quad"), ("tri", "unit"), ("ell", "rhombus")]
PAIRS_THOROUGH = PAIRS_QUICK + [("you", "tri"), ("quad", "quad"), ("penta", "penta"), ("ell", "ell"), ("you", "square"), ("rhombus", "square"), ("big", "hole")]


def specs(tier):
    pairs = PAIRS_QUICK if tier == "quick" else PAIRS_THOROUGH
    out = [dict(module="checks.c14", scenario="Intersect", params=dict(A=a, B=b)) for a, b in pairs]
    out += [dict(module="checks.c14", scenario="Intersect", params=dict(A=a, B=b, premove=True)) for a, b in pairs[:2 if tier == "quick" else len(pairs)]]
    out += [dict(module="checks.c14", scenario="Intersect", params=dict(A=a, B=b, scale=sc)) for a, b in pairs[1:3 if tier == "quick" else len(pairs)] for sc in (["1/2000"] if tier == "quick" else ["1/2000", "1/100", "5000"])]
    # (the cubic pair produces degree-6 atoms: one z3 query occasionally overruns its soft timeout by minutes, so it is thorough-only)
    for a, b in [("qa", "qb")] + ([("ca", "la"), ("qa", "ca"), ("ca", "qb")] if tier != "quick" else []):
        out.append(dict(module="checks.c14", scenario="FilterStage", params=dict(A=a, B=b), time_budget=60 if tier == "quick" else 900))
    # curves with quadratic pieces: concrete placements, completeness decided over all parameter pairs (checks/curvedops.py)
    from checks.curvedops import CONFIGS

    keep = {("lens", "sq1", "3/2"), ("lens", "slab", "3/2"), ("dome", "sq2", "3"), ("blob", "lens", "0"), ("lens", "lens", "1"), ("bite", "sq2", "1"), ("pill", "slab", "1"), ("lens", "vee", "0")}
    for A, B, sh, sc in CONFIGS:
        if tier != "quick" or (A, B, sh[0]) in keep:
            out.append(dict(module="checks.curvedops", scenario="CurvedIntersect", params=dict(A=A, B=B, shift=list(sh), scaleB=str(sc), num="float"), time_budget=600))
    out.append(dict(module="checks.curvedops", scenario="CurvedIntersect", params=dict(A="lens", B="slab", shift=["1", "-3"], num="frac"), time_budget=600))
    if tier != "quick":
        out += [dict(module="checks.c14", scenario="Intersect", params=dict(A=a, B=b, dof=2, lim=2), time_budget=1500) for a, b in [("square", "unit"), ("tri", "unit"), ("penta", "tri")]]
        out += [dict(module="checks.c14", scenario="Intersect", params=dict(A=a, B=b, direction=(1, 2))) for a, b in pairs]
        out += [dict(module="checks.c14", scenario="Intersect", params=dict(A=a, B=b, direction=(1, 0))) for a, b in pairs]
    return out


def main(tier, seed):
    from checks.common import Runner

    r = Runner("C14", tier, seed)
    r.run_specs(specs(tier))
    return r.finish(
        explanation="Real JordanCurve.intersection (4 flag combinations), B.intersection(A) and A & B under SYMX on polygon pairs with B translated "
        "symbolically; per path z3 decides for all parameter values: ranges, A.seg[a](u) == B.seg[b](v) (polynomial identities), every proper crossing "
        "of an edge pair is reported, (None, None) only for identical segments, swap symmetry and exact flag filtering.",
        assumptions=["polygons (degree-1 segments) only: the multi-start Newton search for curved pairs is outside the encodable fragment", "1 symbolic real"],
    )
