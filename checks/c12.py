"""C12 Results do not depend on position, orientation or unit of length."""
from __future__ import annotations

from fractions import Fraction as F

import z3

from checks import geom
from checks.boolops import BIN, near_contact_d2
from oracles import region as R
from shapepy import EmptyShape, IntegrateShape, Primitive, WholeShape
from symx.core import Sym, val

ROT = {"id": (F(1), F(0)), "345": (F(3, 5), F(4, 5)), "51213": (F(5, 13), F(12, 13)), "neg345": (F(-4, 5), F(3, 5))}


def base_pts(name, rel=(0, 0), rot="id"):
    c, s = ROT[rot]
    out = []
    for x, y in geom.POLY[name]:
        x, y = F(x) + F(rel[0]), F(y) + F(rel[1])
        out.append((c * x - s * y, s * x + c * y))
    return out


def op_region(op, ra, rb):
    if op == "|":
        return ("or", [ra, rb])
    if op == "&":
        return ("and", [ra, rb])
    if op == "-":
        return ("and", [ra, ("not", rb)])
    return ("xor", ra, rb)


def normalise(S, f):
    """region description of a result with every vertex mapped back by f (the inverse similarity)"""
    if isinstance(S, EmptyShape):
        return ("empty",)
    if isinstance(S, WholeShape):
        return ("whole",)
    from shapepy import ConnectedShape, DisjointShape, SimpleShape

    if isinstance(S, SimpleShape):
        vs = [f(x, y) for x, y in geom.jordan_vertices(S.jordans[0])]
        return ("poly", vs, bool(geom.signed_area2(vs) > 0))
    if isinstance(S, ConnectedShape):
        return ("and", [normalise(s, f) for s in S.subshapes])
    return ("or", [normalise(s, f) for s in S.subshapes])


class Similar:
    """T(A) op T(B) for a similarity T with a symbolic parameter: 'scale' (factor s in [1e-3, 1e5], both
    operands built from s-scaled coordinates), 'translate' (common vector (tx, ty), |t| <= 1e6).  The
    result mapped back by T^-1 must denote A op B (independent oracle on the *unscaled, concrete*
    operands, query point q free), its kind must not change with the parameter, area scales by s^2."""

    nfree = 2
    max_degree = 2
    ob_timeout_ms = 20000
    spot_names = ["kind or area changes with the similarity parameter"]

    def __init__(self, A, B, op, mode, rel=("7/5", "3/5"), rot="id"):
        self.A, self.B, self.op, self.mode, self.rot = A, B, op, mode, rot
        self.rel = (F(rel[0]), F(rel[1]))
        self.names = (["s"] if mode == "scale" else ["tx", "ty"]) + ["qx", "qy"]

    def domain(self, xs):
        if self.mode == "scale":
            return [xs[0] >= F(1, 1000), xs[0] <= 10**5]
        return [xs[0] >= -(10**6), xs[0] <= 10**6, xs[1] >= -(10**6), xs[1] <= 10**6]

    def seed(self):
        return [F(1)] + [F(0), F(0)] if self.mode == "scale" else [F(0), F(0), F(0), F(0)]

    def T(self, xs):
        if self.mode == "scale":
            s = xs[0]
            return (lambda x, y: (s * x, s * y)), (lambda x, y: (x / s, y / s))
        tx, ty = xs[0], xs[1]
        return (lambda x, y: (x + tx, y + ty)), (lambda x, y: (x - tx, y - ty))

    def run(self, xs):
        fwd, inv = self.T(xs)
        pa = [fwd(x, y) for x, y in base_pts(self.A, (0, 0), self.rot)]
        pb = [fwd(x, y) for x, y in base_pts(self.B, self.rel, self.rot)]
        A, B = Primitive.polygon(pa), Primitive.polygon(pb)
        Rs = BIN[self.op](A, B)
        out = {"kind": type(Rs).__name__, "_norm": normalise(Rs, inv)}
        if not isinstance(Rs, (EmptyShape, WholeShape)):
            out["area"] = Rs.__float__()
            out["ncurves"] = len(Rs.jordans)
        return out

    def reference(self):
        """kind and area of A op B at the identity similarity (concrete run of the library)"""
        if getattr(self, "_ref", None) is None:
            A, B = Primitive.polygon(base_pts(self.A, (0, 0), self.rot)), Primitive.polygon(base_pts(self.B, self.rel, self.rot))
            Rs = BIN[self.op](A, B)
            self._ref = (type(Rs).__name__, None if isinstance(Rs, (EmptyShape, WholeShape)) else Rs.__float__())
        return self._ref

    def oracle(self):
        ra = ("poly", base_pts(self.A, (0, 0), self.rot), True)
        rb = ("poly", base_pts(self.B, self.rel, self.rot), True)
        return op_region(self.op, ra, rb)

    def oblige(self, tr, out):
        n = len(self.names)
        xs = [Sym.var(i, 0) for i in range(n)]
        qx, qy = xs[-2], xs[-1]
        want = self.oracle()
        polys = R.polys_of(want)
        off = R.z_off_boundary(qx, qy, polys, F(1, 100))
        obs = [("T(A) op T(B) is not T(A op B)", z3.And(off, R.z_in(out["_norm"], qx, qy) != R.z_in(want, qx, qy)), {})]
        kind0, area0 = self.reference()
        bad = z3.BoolVal(out["kind"] != kind0)
        if area0 is not None and "area" in out:
            fac = xs[0] * xs[0] if self.mode == "scale" else 1
            d = out["area"] - fac * area0
            bad = z3.Or(bad, R.zb(d != 0) if isinstance(d, Sym) else z3.BoolVal(d != 0))
        obs.append(("kind or area changes with the similarity parameter", bad, {}))
        return obs

    def on_raise(self, exc, func, line):
        return "operator raised under a similarity: " + exc

    def confirm(self, name, xs, outcome, exc):
        par = f"s={xs[0]}" if self.mode == "scale" else f"t=({xs[0]}, {xs[1]})"
        desc = f"{self.A} {self.op} ({self.B}+{tuple(map(str, self.rel))}) rotated {self.rot}, {par}"
        if name.startswith("operator raised"):
            return exc is not None, desc + f": {exc}"
        if outcome is None:
            return False, str(exc)
        if name.startswith("kind or area"):
            kind0, area0 = self.reference()
            fac = xs[0] * xs[0] if self.mode == "scale" else 1
            a = outcome.get("area")
            if outcome["kind"] != kind0:
                return True, desc + f": kind {outcome['kind']} but {kind0} at the identity"
            if a is None or area0 is None:
                return False, desc
            exact = isinstance(a, (int, F)) and not isinstance(a, bool)
            bad = (a != fac * area0) if exact else abs(F(a) - fac * area0) > F(1, 10**9) * abs(fac * area0)
            return bad, desc + f": area {a!r} expected {fac * area0}"  # (__float__ returns a float by design: compared to 1e-9 relative)
        q = (xs[-2], xs[-1])
        want = self.oracle()
        got = geom.concrete_region(outcome["_norm"])
        d2 = R.x_dist2_boundary(q, R.polys_of(want))
        a, b = R.x_in(got, q), R.x_in(want, q)
        return a != b and d2 >= F(1, 10**4), desc + f": q={q} in T^-1(result) {a}, in A op B {b}; result kind {outcome['kind']}"

    def signature(self, name, xs, outcome, exc):
        sig = {"name": name.split(":")[0], "mode": self.mode}
        if self.mode == "scale":
            sig["scale_below_5e-2"] = bool(xs[0] < F(1, 20))
            # the scaled drawing has a vertex of one operand within 1e-5 of the other's boundary without touching it
            d2 = near_contact_d2([base_pts(self.A, (0, 0), self.rot)], [base_pts(self.B, self.rel, self.rot)])
            sig["scaled_detail_below_1e-5"] = bool(d2 is not None and d2 * F(xs[0]) ** 2 < F(1, 10**10))
        if exc:
            sig["exc"] = exc["exc"]
            sig["func"] = exc["where"][1]
        return sig


class SimilarPoint:
    """T(p) in T(S) <=> p in S with a symbolic scale factor / translation and a symbolic point"""

    nfree = 0
    max_degree = 2

    def __init__(self, shape, mode):
        self.shape, self.mode = shape, mode
        self.names = (["s"] if mode == "scale" else ["tx", "ty"]) + ["qx", "qy"]

    def domain(self, xs):
        if self.mode == "scale":
            return [xs[0] >= F(1, 1000), xs[0] <= 10**5, xs[1] >= -10, xs[1] <= 10, xs[2] >= -10, xs[2] <= 10]
        return [xs[0] >= -(10**6), xs[0] <= 10**6, xs[1] >= -(10**6), xs[1] <= 10**6]

    def seed(self):
        return [F(1), F(1, 3), F(1, 5)] if self.mode == "scale" else [F(0), F(0), F(1, 3), F(1, 5)]

    def run(self, xs):
        q = (xs[-2], xs[-1])
        if self.mode == "scale":
            s = xs[0]
            S = geom.make(self.shape)
            S.scale(s, s)
            p = (s * q[0], s * q[1])
        else:
            S = geom.make(self.shape, xs[0], xs[1])
            p = (q[0] + xs[0], q[1] + xs[1])
        return {"ans": bool(p in S)}

    def oblige(self, tr, out):
        n = len(self.names)
        xs = [Sym.var(i, 0) for i in range(n)]
        qx, qy = xs[-2], xs[-1]
        want = geom.region_of_name(self.shape)
        polys = R.polys_of(want)
        off = R.z_off_boundary(qx, qy, polys, F(1, 100))
        return [("T(p) in T(S) differs from p in S", z3.And(off, R.z_in(want, qx, qy) != z3.BoolVal(out["ans"])), {})]

    def on_raise(self, exc, func, line):
        return "point query raised under a similarity: " + exc

    def confirm(self, name, xs, outcome, exc):
        if name.startswith("point query raised"):
            return exc is not None, str(exc)
        if outcome is None:
            return False, str(exc)
        q = (xs[-2], xs[-1])
        want = geom.region_of_name(self.shape)
        d2 = R.x_dist2_boundary(q, R.polys_of(want))
        return outcome["ans"] != R.x_in(want, q) and d2 >= F(1, 10**4), f"{self.shape} {self.mode} {[str(x) for x in xs[:-2]]}: q={q} library {outcome['ans']} truth {R.x_in(want, q)}"

    def signature(self, name, xs, outcome, exc):
        sig = {"name": name.split(":")[0], "mode": self.mode}
        if self.mode == "scale":
            sig["scale_below_5e-2"] = bool(xs[0] < F(1, 20))
        return sig


def specs(tier):
    Mo = "checks.c12"
    out = []
    pairs = [("square", "unit"), ("tri", "unit"), ("penta", "quad"), ("ell", "tri"), ("quad", "square")]
    if tier != "quick":
        pairs += [("you", "bar"), ("youb", "bar2"), ("rhombus", "square"), ("ell", "quad"), ("you", "small"), ("notchtri", "square")]
    for A, B in pairs:
        for op in ["|", "&", "-", "^"]:
            for mode in ("scale", "translate"):
                out.append(dict(module=Mo, scenario="Similar", params=dict(A=A, B=B, op=op, mode=mode), time_budget=120 if tier == "quick" else 1500))
    for op in ["|", "&", "-", "^"]:  # fine detail (5e-4) in a drawing of size 2, anywhere up to 1e6 from the origin and at every scale
        for mode in ("scale", "translate"):
            out.append(dict(module=Mo, scenario="Similar", params=dict(A="square", B="sliver", op=op, mode=mode, rel=["0", "0"]), time_budget=120 if tier == "quick" else 1500))
    for rot in ["345", "51213", "neg345"]:
        for op in ("|", "-"):
            out.append(dict(module=Mo, scenario="Similar", params=dict(A="square", B="unit", op=op, mode="scale", rot=rot), time_budget=120 if tier == "quick" else 1500))
            out.append(dict(module=Mo, scenario="Similar", params=dict(A="tri", B="unit", op=op, mode="translate", rot=rot), time_budget=120 if tier == "quick" else 1500))
    for s in ["penta", "hollow", "two", "inv:ell"] + (["framedot", "inv:hollow", "youb", "opring", "cw:quad"] if tier != "quick" else []):
        for mode in ("scale", "translate"):
            out.append(dict(module=Mo, scenario="SimilarPoint", params=dict(shape=s, mode=mode), time_budget=120 if tier == "quick" else 1500))
    return out


def main(tier, seed):
    from checks.common import Runner

    r = Runner("C12", tier, seed)
    r.run_specs(specs(tier))
    return r.finish(
        explanation="T(A) op T(B) executed under SYMX with the similarity parameter symbolic: uniform scale s in [1e-3, 1e5] (operands built from s-scaled coordinates) and common "
        "translation (tx, ty) in [-1e6, 1e6]^2, also on operands rotated by exact Pythagorean angles; the result mapped back by T^-1 (exact polynomial division) must "
        "denote A op B as given by the independent oracle on the concrete unscaled operands, with the query point free (1e-2 band in unscaled units); T(p) in T(S) <=> p in S "
        "with symbolic p. Cells where the library's absolute tolerances make the behaviour depend on s are what this check hunts.",
        assumptions=["polygons; rotations only by exact rational (cos, sin); float rounding outside"],
    )
