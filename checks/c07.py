"""C07 == is region equality and an equivalence relation."""
from __future__ import annotations

from fractions import Fraction as F

import z3

from checks import geom
from oracles import region as R
from shapepy import ConnectedShape, DisjointShape, JordanCurve, Primitive, SimpleShape
from symx.core import Sym, val


def variant(pts, v):
    """a different description of the same closed polygon"""
    pts = list(pts)
    kind = v[0]
    if kind == "id":
        return pts
    if kind == "rot":
        k = v[1] % len(pts)
        return pts[k:] + pts[:k]
    if kind == "ins":  # redundant collinear vertex on edge i at parameter u
        i, u = v[1], F(v[2])
        a, b = pts[i], pts[(i + 1) % len(pts)]
        m = (a[0] + u * (b[0] - a[0]), a[1] + u * (b[1] - a[1]))
        return pts[: i + 1] + [m] + pts[i + 1 :]
    if kind == "insrot":
        return variant(variant(pts, ("ins", v[1], v[2])), ("rot", v[3]))
    if kind == "rev":  # opposite orientation: a different region
        return pts[::-1]
    raise ValueError(kind)


class CurveEq:
    """X == Y for two descriptions of polygons placed at a common symbolic translation (tx, ty);
    Y is additionally shifted by s*(1, 1/2): equal iff s == 0 (and the descriptions denote the
    same oriented curve)"""

    nfree = 0
    max_degree = 2

    def __init__(self, poly, vx, vy, level="curve", shifted=True):
        self.poly, self.vx, self.vy, self.level, self.shifted = poly, tuple(vx), tuple(vy), level, shifted
        self.names = ["tx", "ty", "s"] if shifted else ["tx", "ty"]

    def domain(self, xs):
        cs = [xs[0] >= -100, xs[0] <= 100, xs[1] >= -100, xs[1] <= 100]
        if self.shifted:
            cs += [xs[2] >= -2, xs[2] <= 2]
        return cs

    def build(self, xs):
        base = geom.tr_pts(geom.POLY[self.poly], xs[0], xs[1])
        s = xs[2] if self.shifted else F(0)
        px = variant(base, self.vx)
        py = [(x + s, y + s * F(1, 2)) for x, y in variant(base, self.vy)]
        if self.level == "curve":
            return JordanCurve.from_vertices(px), JordanCurve.from_vertices(py)
        return Primitive.polygon(px), Primitive.polygon(py)

    def same_when_unshifted(self):
        return ("rev" in (self.vx[0], self.vy[0])) == (self.vx[0] == self.vy[0] == "rev")

    def run(self, xs):
        X, Y = self.build(xs)
        r = {"xy": X == Y}
        X, Y = self.build(xs)
        r["yx"] = Y == X
        X, Y = self.build(xs)
        r["ne"] = X != Y
        X, Y = self.build(xs)
        r["xx"] = X == X
        out = {"types": [type(v).__name__ for v in r.values()]}
        out.update({k: bool(v) for k, v in r.items()})
        return out

    def oblige(self, tr, out):
        T, Fl = z3.BoolVal(True), z3.BoolVal(False)
        obs = [("== / != did not return a bool", Fl if all(t == "bool" for t in out["types"]) else T, {"types": out["types"]}),
               ("== is not symmetric or != is not its negation or X == X is False", Fl if out["xy"] == out["yx"] and out["ne"] == (not out["xy"]) and out["xx"] else T, {})]
        same0 = self.same_when_unshifted()
        if self.shifted:
            s = Sym.var(2, 0)
            big = R.zor(s >= F(1, 10**5), -s >= F(1, 10**5))
            if out["xy"]:
                obs.append(("== is True for different regions", big if same0 else T, {}))
            else:
                obs.append(("== is False for two descriptions of the same curve", R.zb(s == 0) if same0 else Fl, {}))
        else:
            obs.append(("== does not agree with region equality", Fl if out["xy"] == same0 else T, {}))
        return obs

    def on_raise(self, exc, func, line):
        return "comparison raised " + exc

    def confirm(self, name, xs, outcome, exc):
        s = xs[2] if self.shifted else F(0)
        desc = f"{self.level} {self.poly}+({xs[0]}, {xs[1]}): X={self.vx}, Y={self.vy} shifted by {s}*(1, 1/2)"
        if name.startswith("comparison raised"):
            return exc is not None, desc + f": {exc}"
        if outcome is None:
            return False, str(exc)
        same0 = self.same_when_unshifted()
        if name.startswith("== / != did not"):
            return not all(t == "bool" for t in outcome["types"]), desc + f": {outcome['types']}"
        if name.startswith("== is not symmetric"):
            return not (outcome["xy"] == outcome["yx"] and outcome["ne"] == (not outcome["xy"]) and outcome["xx"]), desc + f": {outcome}"
        truth = same0 and s == 0
        if abs(s) != 0 and abs(s) < F(1, 10**5):
            return False, desc + ": inside the tolerance band"
        return outcome["xy"] != truth, desc + f": library says {outcome['xy']}, the regions are {'equal' if truth else 'different'}"

    def signature(self, name, xs, outcome, exc):
        sig = {"name": name.split(" raised")[0], "level": self.level}
        if exc:
            sig["exc"] = exc["exc"]
            sig["func"] = exc["where"][1]
        return sig


class ShapeEq:
    """== on composite shapes: the same shape built twice (components / holes listed in a
    different order, or obtained from an operator) vs. a copy shifted by the symbolic s"""

    nfree = 0
    max_degree = 2

    def __init__(self, shape, how="reorder"):
        self.shape, self.how = shape, how
        self.names = ["tx", "s"]

    def domain(self, xs):
        return [xs[0] >= -50, xs[0] <= 50, xs[1] >= -2, xs[1] <= 2]

    def build(self, xs):
        tx, s = xs[0], xs[1]
        X = geom.make(self.shape, tx, tx * F(1, 3))
        if self.how == "tinyhole":  # the same frame with one more, tiny hole: a different region whatever s is
            e = F(1, 4000)
            c = (tx + s + 3, tx * F(1, 3) + s * F(1, 2) + 3)
            th = Primitive.polygon([(c[0] - e, c[1] - e), (c[0] - e, c[1] + e), (c[0] + e, c[1] + e), (c[0] + e, c[1] - e)])
            Y = ConnectedShape([geom.poly("big", tx + s, tx * F(1, 3) + s * F(1, 2)), geom.poly("hole", tx + s, tx * F(1, 3) + s * F(1, 2)), th])
        elif self.how == "swapone":  # two congruent components, one of them in common with X: a different region whatever s is
            X = DisjointShape([geom.poly("u0", tx, tx * F(1, 3)), geom.poly("u1", tx, tx * F(1, 3))])
            Y = DisjointShape([geom.poly("u2", tx + s, tx * F(1, 3) + s * F(1, 2)), geom.poly("u0", tx, tx * F(1, 3))])
        elif self.how == "reorder":
            Y = _reordered(self.shape, tx + s, tx * F(1, 3) + s * F(1, 2))
        elif self.how == "op":  # built by operators instead of the constructor
            Y = _by_operator(self.shape, tx + s, tx * F(1, 3) + s * F(1, 2))
        else:
            Y = geom.make(self.shape, tx + s, tx * F(1, 3) + s * F(1, 2))
        return X, Y

    def run(self, xs):
        X, Y = self.build(xs)
        a = X == Y
        X, Y = self.build(xs)
        b = Y == X
        X, Y = self.build(xs)
        c = X != Y
        return {"types": [type(a).__name__, type(b).__name__, type(c).__name__], "xy": bool(a), "yx": bool(b), "ne": bool(c), "kinds": [type(X).__name__, type(Y).__name__]}

    def oblige(self, tr, out):
        T, Fl = z3.BoolVal(True), z3.BoolVal(False)
        s = Sym.var(1, 0)
        big = R.zor(s >= F(1, 10**5), -s >= F(1, 10**5))
        obs = [("== / != did not return a bool", Fl if all(t == "bool" for t in out["types"]) else T, {}),
               ("== is not symmetric or != is not its negation", Fl if out["xy"] == out["yx"] and out["ne"] == (not out["xy"]) else T, {})]
        if self.how in ("tinyhole", "swapone"):
            obs.append(("== is True for different regions", T if (out["xy"] or out["yx"]) else Fl, {}))
        elif out["xy"]:
            obs.append(("== is True for different regions", big, {}))
        else:
            obs.append(("== is False for two descriptions of the same region", R.zb(s == 0), {}))
        return obs

    def on_raise(self, exc, func, line):
        return "comparison raised " + exc

    def confirm(self, name, xs, outcome, exc):
        desc = f"{self.shape}+({xs[0]}, {xs[0]/3}) vs the same shape ({self.how}) shifted by {xs[1]}*(1, 1/2)"
        if name.startswith("comparison raised"):
            return exc is not None, desc + f": {exc}"
        if outcome is None:
            return False, str(exc)
        if name.startswith("== / !="):
            return not all(t == "bool" for t in outcome["types"]), desc
        if name.startswith("== is not symmetric"):
            return not (outcome["xy"] == outcome["yx"] and outcome["ne"] == (not outcome["xy"])), desc + f": {outcome}"
        s = xs[1]
        if self.how == "tinyhole":
            return bool(outcome["xy"] or outcome["yx"]), desc + f": a frame and the same frame with an extra tiny hole compare {outcome['xy']} / {outcome['yx']}"
        if self.how == "swapone":
            return bool(outcome["xy"] or outcome["yx"]), desc + f": two pairs of congruent squares with only one square in common compare {outcome['xy']} / {outcome['yx']}"
        if s != 0 and abs(s) < F(1, 10**5):
            return False, "band"
        return outcome["xy"] != (s == 0), desc + f": library says {outcome['xy']} (kinds {outcome['kinds']})"

    def signature(self, name, xs, outcome, exc):
        sig = {"name": name.split(" raised")[0], "shape_kind": (outcome or {}).get("kinds", [None])[0]}
        if exc:
            sig["exc"] = exc["exc"]
        return sig


class MixedDegreeEq:
    """== on closed curves that mix straight and curved pieces must return a bool.  The comparison runs the Newton
    projection on the curved pieces, which is outside the symbolic fragment: the cell is declared intractable and is
    spot-checked on the plain library at its witness (a regression witness for the repaired mixed-degree defect)."""

    nfree = 0
    spot_names = ["== on a mixed-degree curve did not return True for identical curves"]

    def __init__(self, chain):
        self.chain = chain
        self.names = ["tx", "ty"]

    def domain(self, xs):
        return [xs[0] >= -10, xs[0] <= 10, xs[1] >= -10, xs[1] <= 10]

    def seed(self):
        return [F(1, 3), F(-2, 7)]

    def run(self, xs):
        from checks.c15 import CURVED
        from symx import shims
        from symx.core import Intractable

        if shims.installed():
            raise Intractable("== on curved pieces (Newton projection): outside the symbolic fragment")
        segs = [[(F(x) + xs[0], F(y) + xs[1]) for x, y in seg] for seg in CURVED[self.chain]]
        J, K = JordanCurve.from_ctrlpoints(segs), JordanCurve.from_ctrlpoints([list(s) for s in segs])
        K.split([1], [F(1, 3)])
        a, b, c = J == K, K == J, SimpleShape(J) == SimpleShape(K)
        return {"vals": [a, b, c], "types": [type(v).__name__ for v in (a, b, c)]}

    def oblige(self, tr, out):
        return []

    def on_raise(self, exc, func, line):
        return "comparison raised " + exc

    def confirm(self, name, xs, outcome, exc):
        if exc is not None:
            return True, f"mixed-degree chain {self.chain}+({xs[0]}, {xs[1]}): {exc}"
        ok = all(t == "bool" for t in outcome["types"]) and all(outcome["vals"])
        return not ok, f"mixed-degree chain {self.chain}+({xs[0]}, {xs[1]}): {outcome}"

    def signature(self, name, xs, outcome, exc):
        return {"name": "mixed-degree =="}


def _reordered(name, tx, ty):
    if name == "hollow":
        return ConnectedShape([geom.poly("hole", tx, ty), geom.poly("big", tx, ty)])
    if name == "two":
        return DisjointShape([geom.poly("far", tx, ty), geom.poly("square", tx, ty)])
    if name == "three":
        return DisjointShape([geom.poly("u2", tx, ty), geom.poly("u0", tx, ty), geom.poly("u1", tx, ty)])
    if name == "framedot":
        return DisjointShape([geom.poly("far", tx, ty), ConnectedShape([geom.poly("hole", tx, ty), geom.poly("big", tx, ty)])])
    return geom.make(name, tx, ty)


def _by_operator(name, tx, ty):
    if name == "hollow":
        return geom.poly("big", tx, ty) - geom.poly("hole", tx, ty, rev=True)
    if name == "two":
        return geom.poly("square", tx, ty) | geom.poly("far", tx, ty)
    if name == "three":
        return (geom.poly("u1", tx, ty) | geom.poly("u2", tx, ty)) | geom.poly("u0", tx, ty)
    if name == "framedot":
        return (geom.poly("big", tx, ty) - geom.poly("hole", tx, ty, rev=True)) | geom.poly("far", tx, ty)
    return geom.make(name, tx, ty)


def specs(tier):
    Mo = "checks.c07"
    out = []
    fam = [("square", ("id",), ("rot", 1)), ("square", ("id",), ("ins", 0, "1/2")), ("penta", ("rot", 2), ("ins", 3, "1/3")), ("tri", ("ins", 1, "1/4"), ("insrot", 1, "1/4", 2)),
           ("tri", ("id",), ("rev",)), ("quad", ("ins", 2, "3/4"), ("id",)), ("square", ("ins", 0, "1/2"), ("ins", 2, "1/2")), ("penta", ("ins", 1, "1/3"), ("insrot", 3, "2/3", 2))]
    if tier != "quick":
        fam += [("ell", ("rot", 3), ("insrot", 4, "2/5", 5)), ("you", ("ins", 0, "1/2"), ("ins", 6, "1/2")), ("penta", ("rev",), ("rev",)), ("square", ("insrot", 1, "1/8", 3), ("insrot", 2, "7/8", 1))]
    for p, vx, vy in fam:
        for level in ("curve", "shape"):
            out.append(dict(module=Mo, scenario="CurveEq", params=dict(poly=p, vx=list(vx), vy=list(vy), level=level), time_budget=90 if tier == "quick" else 900))
    for ch in ("q1", "q2", "c1"):
        out.append(dict(module=Mo, scenario="MixedDegreeEq", params=dict(chain=ch)))
    out.append(dict(module=Mo, scenario="ShapeEq", params=dict(shape="three", how="swapone"), time_budget=90 if tier == "quick" else 900))
    for s in ["hollow", "two", "three"] + (["framedot", "inv:two", "hollow2"] if tier != "quick" else []):
        for how in ("same", "reorder", "op"):
            out.append(dict(module=Mo, scenario="ShapeEq", params=dict(shape=s, how=how), time_budget=90 if tier == "quick" else 900))
    out.append(dict(module=Mo, scenario="ShapeEq", params=dict(shape="hollow", how="tinyhole"), time_budget=90 if tier == "quick" else 900))
    return out


def main(tier, seed):
    from checks.common import Runner

    r = Runner("C07", tier, seed)
    r.run_specs(specs(tier))
    return r.finish(
        explanation="X == Y, Y == X, X != Y, X == X executed under SYMX for two descriptions of a polygon (vertex list rotated, redundant collinear vertices inserted, reversed "
        "orientation) placed at a common symbolic translation, Y additionally shifted by a symbolic s: on every path cell z3 decides that the answer is a bool, symmetric, "
        "consistent with !=, True only where s = 0 (up to the 1e-5 band) and False only where s != 0; the same for Simple/Connected/Disjoint shapes built by constructor, "
        "with components reordered, or by operators.",
        assumptions=["redundant vertices at concrete parameters (a symbolic junction parameter sends pynurbs' knot removal to float64 linear algebra: outside)",
                     "curved / mixed-degree chains and int-vs-float representation: outside (see DESIGN.md)"],
    )
