"""Catalogue of base shapes and helpers that read library objects in both modes
(symbolic worker: coordinates may be Sym; replay worker: Fractions/floats)."""
from __future__ import annotations

from fractions import Fraction as F

import shapepy
from shapepy import ConnectedShape, DisjointShape, EmptyShape, JordanCurve, Primitive, SimpleShape, WholeShape

from symx.core import Intractable, Sym, val

# ------------------------------------------------------------------ catalogue

POLY = {
    "square": [(0, 0), (2, 0), (2, 2), (0, 2)],
    "unit": [(0, 0), (1, 0), (1, 1), (0, 1)],
    "tri": [(0, 0), (3, 0), (1, 2)],
    "rhombus": [(2, 0), (0, 1), (-2, 0), (0, -1)],
    "penta": [(0, 0), (4, 0), (4, 3), (2, 1), (0, 3)],
    "quad": [(0, 0), (3, 1), (2, 4), (-1, 2)],
    "ell": [(0, 0), (3, 0), (3, 1), (1, 1), (1, 3), (0, 3)],
    "you": [(0, 0), (3, 0), (3, 3), (2, 3), (2, 1), (1, 1), (1, 3), (0, 3)],
    "big": [(-4, -4), (4, -4), (4, 4), (-4, 4)],
    "hole": [(-1, -1), (-1, 1), (1, 1), (1, -1)],  # clockwise
    "mid": [(-2, -2), (2, -2), (2, 2), (-2, 2)],
    "far": [(6, 0), (9, 0), (9, 3), (6, 3)],
    "youa": [(0, 0), (3, 0), (3, 2), (2, 2), (2, 1), (1, 1), (1, 3), (0, 3)],  # U with arms of different height
    "youb": [(0, 0), (3, 0), (3, 2), (2, 2), (2, 1), (1, 1), (1, 4), (0, 4)],  # arms of very different height
    "bar2": [(F(1, 5), F(9, 5)), (F(29, 10), F(9, 5)), (F(29, 10), F(19, 10)), (F(1, 5), F(19, 10))],  # off-centre thin bar over the notch of youb
    "bar": [(F(1, 4), F(5, 4)), (F(11, 4), F(5, 4)), (F(11, 4), F(7, 4)), (F(1, 4), F(7, 4))],  # thin bar bridging the notch of you / youa
    "tinyo": [(F(-3, 4), F(-3, 4)), (F(3, 4), F(-3, 4)), (F(3, 4), F(3, 4)), (F(-3, 4), F(3, 4))],
    "tinyi": [(F(-1, 4), F(-1, 4)), (F(-1, 4), F(1, 4)), (F(1, 4), F(1, 4)), (F(1, 4), F(-1, 4))],  # clockwise
    "notchtri": [(1, 1), (3, 1), (1, 3)],  # all vertices on the boundary of `ell`, interior in its notch
    "hbar": [(-3, F(-1, 2)), (3, F(-1, 2)), (3, F(1, 2)), (-3, F(1, 2))],
    "vbar": [(F(-2, 3), -2), (F(1, 3), -2), (F(1, 3), 2), (F(-2, 3), 2)],
    "u0": [(0, 0), (1, 0), (1, 1), (0, 1)], "u1": [(3, 0), (4, 0), (4, 1), (3, 1)], "u2": [(0, 3), (1, 3), (1, 4), (0, 4)],  # three congruent squares
    "sliver": [(1, F(1, 2000)), (3, F(1, 2000)), (3, 1), (1, 1)],  # half a millimetre above the base line of `square` in a drawing in metres
    "small": [(F(1, 2), F(1, 2)), (F(3, 2), F(1, 2)), (F(3, 2), F(3, 2)), (F(1, 2), F(3, 2))],
}


def tr_pts(pts, tx=0, ty=0, rev=False):
    out = [(F(x) + tx, F(y) + ty) for x, y in pts]
    return out[::-1] if rev else out


def poly(name, tx=0, ty=0, rev=False):
    return Primitive.polygon(tr_pts(POLY[name], tx, ty, rev))


def make(name, tx=0, ty=0):
    """build a catalogue shape, translated by (tx, ty) at construction time"""
    if name == "empty":
        return EmptyShape()
    if name == "whole":
        return WholeShape()
    if name.startswith("inv:"):
        return ~make(name[4:], tx, ty)
    if name in POLY:
        return poly(name, tx, ty)
    if name.startswith("cw:"):
        return poly(name[3:], tx, ty, rev=True)
    if name == "hollow":  # square with square hole
        return ConnectedShape([poly("big", tx, ty), poly("hole", tx, ty)])
    if name == "hollow2":  # smaller frame: mid minus unit-ish hole
        return ConnectedShape([poly("mid", tx, ty), poly("hole", tx, ty)])
    if name == "opring":  # the same frame as hollow2, but built the way users do: by an operator
        return poly("mid", tx, ty) - poly("hole", tx, ty, rev=True)
    if name == "tinyring":  # small frame that fits into the hole of `hollow`
        return ConnectedShape([poly("tinyo", tx, ty), poly("tinyi", tx, ty)])
    if name == "bullseye":  # a frame with a small frame inside its hole, built by an operator (nesting depth 2)
        return make("hollow", tx, ty) | make("tinyring", tx, ty)
    if name == "three":  # three congruent components: ties in every sorting key the library uses
        return DisjointShape([poly("u0", tx, ty), poly("u1", tx, ty), poly("u2", tx, ty)])
    if name == "two":  # two components
        return DisjointShape([poly("square", tx, ty), poly("far", tx, ty)])
    if name == "framedot":  # frame with an island in its hole... a Disjoint of Connected + Simple
        return DisjointShape([ConnectedShape([poly("big", tx, ty), poly("hole", tx, ty)]), poly("far", tx, ty)])
    raise KeyError(name)


def region_of_name(name, tx=0, ty=0):
    """independent region description (oracles.region format) of a catalogue shape"""
    if name == "empty":
        return ("empty",)
    if name == "whole":
        return ("whole",)
    if name.startswith("inv:"):
        return ("not", region_of_name(name[4:], tx, ty))
    if name in POLY:
        return ("poly", tr_pts(POLY[name], tx, ty), _ccw(POLY[name]))
    if name.startswith("cw:"):
        return ("poly", tr_pts(POLY[name[3:]], tx, ty, rev=True), not _ccw(POLY[name[3:]]))
    if name == "hollow":
        return ("and", [region_of_name("big", tx, ty), region_of_name("hole", tx, ty)])
    if name in ("hollow2", "opring"):
        return ("and", [region_of_name("mid", tx, ty), region_of_name("hole", tx, ty)])
    if name == "tinyring":
        return ("and", [region_of_name("tinyo", tx, ty), region_of_name("tinyi", tx, ty)])
    if name == "bullseye":
        return ("or", [region_of_name("hollow", tx, ty), region_of_name("tinyring", tx, ty)])
    if name == "three":
        return ("or", [region_of_name("u0", tx, ty), region_of_name("u1", tx, ty), region_of_name("u2", tx, ty)])
    if name == "two":
        return ("or", [region_of_name("square", tx, ty), region_of_name("far", tx, ty)])
    if name == "framedot":
        return ("or", [region_of_name("hollow", tx, ty), region_of_name("far", tx, ty)])
    raise KeyError(name)


def _ccw(pts):
    n = len(pts)
    a2 = sum(F(pts[i][0]) * F(pts[(i + 1) % n][1]) - F(pts[(i + 1) % n][0]) * F(pts[i][1]) for i in range(n))
    return a2 > 0


# ---------------------------------------------------------- reading shapes


def jordan_vertices(j):
    """vertex coordinates (raw numbers) of a polygonal jordan curve, in order"""
    vs = []
    for seg in j.segments:
        if seg.degree != 1:
            raise Intractable("curved segment in a polygonal harness")
        p = seg.ctrlpoints[0]
        vs.append((p[0], p[1]))
    return vs


def signed_area2(vs):
    n = len(vs)
    tot = 0
    for i in range(n):
        tot = tot + (vs[i][0] * vs[(i + 1) % n][1] - vs[(i + 1) % n][0] * vs[i][1])
    return tot


def region_of_shape(S):
    """region description of a library shape from its *kind* and vertex lists; orientation is
    taken from the harness's own signed area (a forced decision when symbolic)"""
    if isinstance(S, EmptyShape):
        return ("empty",)
    if isinstance(S, WholeShape):
        return ("whole",)
    if isinstance(S, SimpleShape):
        vs = jordan_vertices(S.jordans[0])
        a2 = signed_area2(vs)
        return ("poly", vs, bool(a2 > 0))
    if isinstance(S, ConnectedShape):
        return ("and", [region_of_shape(s) for s in S.subshapes])
    if isinstance(S, DisjointShape):
        return ("or", [region_of_shape(s) for s in S.subshapes])
    raise TypeError(type(S))


def describe(S):
    """structural outcome of a shape: kind + vertex lists (nested like the shape)"""
    if isinstance(S, EmptyShape):
        return {"kind": "Empty", "is_singleton": S is EmptyShape()}
    if isinstance(S, WholeShape):
        return {"kind": "Whole", "is_singleton": S is WholeShape()}
    if isinstance(S, SimpleShape):
        return {"kind": "Simple", "v": [list(p) for p in jordan_vertices(S.jordans[0])]}
    if isinstance(S, ConnectedShape):
        return {"kind": "Connected", "sub": _canon([describe(s) for s in S.subshapes])}
    if isinstance(S, DisjointShape):
        return {"kind": "Disjoint", "sub": _canon([describe(s) for s in S.subshapes])}
    return {"kind": type(S).__name__}


def _canon(subs):
    """order-insensitive listing of subshapes (the library orders them by area and breaks ties by input order, which
    may differ between the exact symbolic run and the denominator-capped plain run)"""

    def key(d):
        pts = []

        def rec(x):
            if "v" in x:
                pts.extend((float(val(p[0])), float(val(p[1]))) for p in x["v"])
            for s in x.get("sub", []):
                rec(s)

        rec(d)
        return (d["kind"], len(pts), [round(c, 6) for c in min(pts)] if pts else [], [round(c, 6) for c in max(pts)] if pts else [])

    return sorted(subs, key=key)


def concrete_region(reg):
    """shadow/concrete copy of a region description (Fractions)"""
    k = reg[0]
    if k == "poly":
        return ("poly", [(val(x), val(y)) for x, y in reg[1]], reg[2])
    if k in ("and", "or"):
        return (k, [concrete_region(r) for r in reg[1]])
    if k == "not":
        return ("not", concrete_region(reg[1]))
    if k == "xor":
        return ("xor", concrete_region(reg[1]), concrete_region(reg[2]))
    return reg


def numtype_ok(x):
    """C13: an exact value must be a well-formed Fraction / int (or an untainted Sym)"""
    if isinstance(x, Sym):
        return not x.fl
    if isinstance(x, bool):
        return False
    if isinstance(x, int):
        return True
    if isinstance(x, F):
        return isinstance(x.numerator, int) and isinstance(x.denominator, int)
    return False
