"""C20 Plotting draws exactly the boundary of the shape."""
from __future__ import annotations

from fractions import Fraction as F

import z3

from checks import geom
from checks.c17 import chain_from, same_num
from oracles import region as R
from symx import core
from symx.core import Sym, lift, val

MOVETO, LINETO, CURVE3, CURVE4, CLOSEPOLY = 1, 2, 3, 4, 79


class RecPath:
    """stands in for matplotlib.path.Path in the symbolic worker (matplotlib is environment)"""

    MOVETO, LINETO, CURVE3, CURVE4, CLOSEPOLY = MOVETO, LINETO, CURVE3, CURVE4, CLOSEPOLY

    def __init__(self, vertices, codes=None):
        self.vertices = [tuple(v) for v in vertices]
        self.codes = list(codes) if codes is not None else None


class RecPatch:
    def __init__(self, path, **kw):
        self.path, self.kw = path, kw

    def get_path(self):
        return self.path


class FakeAxes:
    def __init__(self):
        self.patches, self.face, self.scatters = [], None, 0

    def get_figure(self):
        return None

    def add_patch(self, p):
        self.patches.append(p)

    def set_facecolor(self, c):
        self.face = c

    def scatter(self, *a, **k):
        self.scatters += 1

    def plot(self, *a, **k):
        pass


class RoundedSym:
    """round(1e6 * v) for a symbolic v, only ever used as 1e-6 * round(1e6 * v): modelled as v
    (the rounding to 1e-6 is dropped in the exact-real model; replays compare to 1e-6)"""

    def __init__(self, y):
        self.y = y

    def __rmul__(self, k):
        return self.y * F(k).limit_denominator(10**9)

    __mul__ = __rmul__


def install_recorders():
    import shapepy.plot as P
    from symx import shims

    if shims.installed():
        P.Path = RecPath
        P.PathPatch = RecPatch
        P.round = lambda x, nd=None: RoundedSym(x) if isinstance(x, Sym) else (round(x) if nd is None else round(x, nd))


def patch_info(p):
    path = p.get_path()
    verts = [[v[0], v[1]] for v in (path.vertices.tolist() if hasattr(path.vertices, "tolist") else path.vertices)]
    codes = [int(c) for c in path.codes]
    kw = getattr(p, "kw", None)
    if kw is None:
        fc = tuple(p.get_facecolor())
        filled = bool(p.get_fill()) and fc[3] != 0
        white = filled and tuple(round(c, 6) for c in fc[:3]) == (1.0, 1.0, 1.0)
    else:
        filled = kw.get("facecolor") != "none"
        white = filled and kw.get("color") == "white"
    return {"v": verts, "codes": codes, "filled": filled, "white": white}


def expected_path(jordans):
    """(vertices, codes) retracing each boundary segment by segment, closed"""
    vs, cs = [], []
    for segs in jordans:
        vs.append(segs[0][0])
        cs.append(MOVETO)
        for s in segs:
            d = len(s) - 1
            if d == 1:
                vs.append(s[1])
                cs.append(LINETO)
            elif d == 2:
                vs += [s[1], s[2]]
                cs += [CURVE3] * 2
            elif d == 3:
                vs += [s[1], s[2], s[3]]
                cs += [CURVE4] * 3
        vs.append(segs[0][0])
        cs.append(CLOSEPOLY)
    return vs, cs


def plot(shape):
    import shapepy.plot as P

    install_recorders()
    ax = FakeAxes()
    pl = P.ShapePloter(ax=ax)
    pl.plot(shape)
    return ax


def jordan_ctrl(j):
    return [[(p[0], p[1]) for p in s.ctrlpoints] for s in j.segments]


class PlotChain:
    """SimpleShape bounded by a chain of given degrees with symbolic control points"""

    nfree = 0
    allow_concretize = True  # the marker scatter converts the vertices to float64: not part of the property

    def __init__(self, degrees):
        self.degrees = list(degrees)
        self.nv = sum(self.degrees)
        self.names = [f"c{i}{ax}" for i in range(self.nv) for ax in "xy"]

    def seed(self):
        import math

        out = []
        for i in range(self.nv):
            ang = 2 * math.pi * i / self.nv
            out += [F(round(50 * math.cos(ang)) + i, 7), F(round(50 * math.sin(ang)) + (i * i) % 3, 7)]
        return out

    def run(self, xs):
        from shapepy import JordanCurve, SimpleShape

        segs = chain_from(xs, self.degrees)
        S = SimpleShape(JordanCurve.from_ctrlpoints([list(s) for s in segs]))
        before = [jordan_ctrl(j) for j in S.jordans]
        ax = plot(S)
        after = [jordan_ctrl(j) for j in S.jordans]
        return {"patches": [patch_info(p) for p in ax.patches], "face": ax.face, "unchanged": _same_struct(before, after),
                "degrees": [s.degree for s in S.jordans[0].segments], "_before": before, "positive": bool(S.__float__() > 0)}

    def oblige(self, tr, out):
        T, Fl = z3.BoolVal(True), z3.BoolVal(False)
        if sum(out["degrees"]) < sum(self.degrees):
            raise core.Intractable("degree-reduced chain: outside")
        ev, ec = expected_path(out["_before"])
        obs = [("plotting modified the shape", Fl if out["unchanged"] else T, {})]
        ps = out["patches"]
        obs.append(("a simple shape must give one filled path and one outline", Fl if len(ps) == 2 and ps[0]["filled"] and not ps[1]["filled"] else T, {"n": len(ps)}))
        for k, what in ((0, "filled path"), (1, "outline")):
            if len(ps) > k:
                ok = ps[k]["codes"] == ec and len(ps[k]["v"]) == len(ev) and all(same_num(g[0], w[0]) and same_num(g[1], w[1]) for g, w in zip(ps[k]["v"], ev))
                obs.append((f"{what} does not retrace the boundary segment by segment", Fl if ok else T, {"codes": ps[k]["codes"], "expected": ec}))
        obs.append(("bounded shape must be filled on an untouched background / unbounded one drawn as a hole", Fl if (out["face"] is None) == out["positive"] else T, {}))
        return obs

    def on_raise(self, exc, func, line):
        return "plot raised " + exc

    def confirm(self, name, xs, outcome, exc):
        if name.startswith("plot raised"):
            return exc is not None, str(exc)
        if outcome is None:
            return False, str(exc)
        if sum(outcome["degrees"]) < sum(self.degrees):
            return False, "degree-reduced"
        ev, ec = expected_path(outcome["_before"])
        ps = outcome["patches"]
        desc = f"chain of degrees {self.degrees}, control points {[str(x) for x in xs]}"
        if name.startswith("plotting modified"):
            return not outcome["unchanged"], desc
        if name.startswith("a simple shape must give"):
            return not (len(ps) == 2 and ps[0]["filled"] and not ps[1]["filled"]), desc + f": {len(ps)} patches"
        if "does not retrace" in name:
            k = 0 if name.startswith("filled") else 1
            if len(ps) <= k:
                return True, desc + ": patch missing"
            tol = F(1, 10**6)
            ok = ps[k]["codes"] == ec and len(ps[k]["v"]) == len(ev) and all(abs(F(g[0]) - val(w[0])) <= tol and abs(F(g[1]) - val(w[1])) <= tol for g, w in zip(ps[k]["v"], ev))
            return not ok, desc + f": codes {ps[k]['codes']} expected {ec}; {len(ps[k]['v'])} vertices expected {len(ev)}"
        if name.startswith("bounded shape must"):
            return (outcome["face"] is None) != outcome["positive"], desc
        return False, "unknown"

    def signature(self, name, xs, outcome, exc):
        return {"name": name, "has_cubic": 3 in self.degrees}


def _same_struct(a, b):
    if len(a) != len(b):
        return False
    for ja, jb in zip(a, b):
        if len(ja) != len(jb):
            return False
        for sa, sb in zip(ja, jb):
            if len(sa) != len(sb):
                return False
            for p, q in zip(sa, sb):
                if not (same_num(p[0], q[0]) and same_num(p[1], q[1])):
                    return False
    return True


class PlotShape:
    """catalogue shape of any kind translated symbolically: one filled path per connected
    component, one outline per boundary curve, background for unbounded components,
    Empty draws nothing, Whole only the background; the shape is not modified"""

    nfree = 0
    allow_concretize = True

    def __init__(self, shape):
        self.shape = shape
        self.names = ["tx", "ty"]

    def run(self, xs):
        from shapepy import ConnectedShape, DisjointShape, EmptyShape, SimpleShape, WholeShape

        S = geom.make(self.shape, xs[0], xs[1])
        single = isinstance(S, (EmptyShape, WholeShape))
        before = None if single else [jordan_ctrl(j) for j in S.jordans]
        comps = [] if single else (list(S.subshapes) if isinstance(S, DisjointShape) else [S])
        comp_j = [[jordan_ctrl(j) for j in c.jordans] for c in comps]
        comp_pos = [bool(c.__float__() > 0) for c in comps]
        ax = plot(S)
        after = None if single else [jordan_ctrl(j) for j in S.jordans]
        return {"kind": type(S).__name__, "patches": [patch_info(p) for p in ax.patches], "face": ax.face, "unchanged": single or _same_struct(before, after),
                "_comp": comp_j, "comp_pos": comp_pos}

    def _ok(self, out, exact=True):
        ps = out["patches"]
        if out["kind"] == "EmptyShape":
            return len(ps) == 0 and out["face"] is None, "Empty must draw nothing"
        if out["kind"] == "WholeShape":
            return len(ps) == 0 and out["face"] is not None, "Whole must only colour the background"
        i = 0
        for cj, pos in zip(out["_comp"], out["comp_pos"]):
            if i >= len(ps):
                return False, "patch missing"
            ev, ec = expected_path(cj)
            if not (ps[i]["filled"] and ps[i]["codes"] == ec and _close(ps[i]["v"], ev, exact, ec)):
                return False, f"filled path of a component does not retrace its boundaries: codes {ps[i]['codes']} expected {ec}"
            if ps[i]["white"] == pos:
                return False, "a bounded component must be filled with the fill colour and an unbounded one drawn as a white hole"
            i += 1
            for jc in cj:
                if i >= len(ps):
                    return False, "outline missing"
                ev, ec = expected_path([jc])
                if ps[i]["filled"] or ps[i]["codes"] != ec or not _close(ps[i]["v"], ev, exact, ec):
                    return False, "outline of a boundary curve does not retrace it"
                i += 1
        if i != len(ps):
            return False, f"{len(ps)} patches drawn, {i} expected"
        if any(not p for p in out["comp_pos"]) != (out["face"] is not None):
            return False, "background colouring does not match the presence of an unbounded component"
        return True, ""

    def oblige(self, tr, out):
        ok, why = self._ok(out)
        return [("drawing does not match the shape", z3.BoolVal(not ok), {"why": why}), ("plotting modified the shape", z3.BoolVal(not out["unchanged"]), {})]

    def on_raise(self, exc, func, line):
        return "plot raised " + exc

    def confirm(self, name, xs, outcome, exc):
        if name.startswith("plot raised"):
            return exc is not None, str(exc)
        if outcome is None:
            return False, str(exc)
        if name.startswith("plotting modified"):
            return not outcome["unchanged"], self.shape
        ok, why = self._ok(outcome, exact=False)
        return not ok, f"{self.shape}+({xs[0]}, {xs[1]}): {why}"

    def signature(self, name, xs, outcome, exc):
        return {"name": name}


def _close(got, want, exact, codes=None):
    if len(got) != len(want):
        return False
    for k, (g, w) in enumerate(zip(got, want)):
        if codes is not None and codes[k] == CLOSEPOLY:
            continue  # matplotlib ignores the vertex of a CLOSEPOLY command
        if exact:
            if not (same_num(g[0], w[0]) and same_num(g[1], w[1])):
                return False
        else:
            if abs(F(g[0]) - val(w[0])) > F(1, 10**6) or abs(F(g[1]) - val(w[1])) > F(1, 10**6):
                return False
    return True


def specs(tier):
    Mo = "checks.c20"
    out = []
    for degs in [[1, 1, 1], [2, 1], [3, 1]] + ([[1] * 5, [1, 2, 1], [2, 2], [3, 3], [2, 3, 1]] if tier != "quick" else []):
        out.append(dict(module=Mo, scenario="PlotChain", params=dict(degrees=degs), time_budget=60 if tier == "quick" else 900, digest_tol="1e-5"))
    for s in ["penta", "cw:penta", "hollow", "two", "inv:two", "inv:hollow", "framedot", "empty", "whole"] + (["inv:framedot", "ell", "opring"] if tier != "quick" else []):
        out.append(dict(module=Mo, scenario="PlotShape", params=dict(shape=s), digest_tol="1e-5"))
    return out


def main(tier, seed):
    from checks.common import Runner

    r = Runner("C20", tier, seed)
    r.run_specs(specs(tier))
    return r.finish(
        explanation="ShapePloter.plot executed under SYMX with matplotlib's Path/PathPatch/axes replaced by recorders; chains of degree 1..3 with all control points "
        "symbolic and catalogue shapes of every kind translated symbolically: the recorded vertex/code sequences must be, as identical polynomials, the boundary "
        "retraced segment by segment (LINETO / CURVE3 / CURVE4), closed, one filled path per component and one outline per curve, background iff an unbounded "
        "component, Empty nothing, Whole only background; the shape's control points are unchanged. Replays use the real matplotlib (Agg) objects.",
        assumptions=["path_jordan's rounding to 1e-6 is modelled as the identity in the symbolic run and compared to 1e-6 in replays", "rendering is environment"],
    )
