#!/usr/bin/env python3
"""regenerate MANIFEST.json from the registry below (keeps it schema-valid)"""
import json, os
ROOT = os.path.dirname(os.path.dirname(os.path.abspath(__file__)))
props = {json.loads(l)["id"]: json.loads(l) for l in open(os.path.join(ROOT, "properties.jsonl"))}

SYMX_NOTE = ("Bounded: exact-real semantics (int/Fraction inputs), polygonal catalogue families with <= 8 edges and the stated number of "
             "symbolic reals; cells inside a tolerance band, intractable or undecided cells are counted, not claimed. Trusted: z3, Python, the stubs "
             "of symx/shims.py (float/int/round, sqrt, atan2 specification, set, cos/sin pair), the polynomial normaliser (cross-checked by replaying "
             "every path witness on the plain library), crossing-number = interior.")

CHECKS = {
    "C02": dict(level="model_checking", design="4/C02",
                text="Path-exhaustive symbolic execution of the real contains_point/`in` with the query point symbolic over the whole plane; the path "
                     "conditions partition the plane and z3 decides on every cell, for all its points, that the answer equals the crossing-number truth "
                     "(off the boundary) or the boundary flag (on it). Every cell witness is replayed on the plain library.",
                technique="symbolic execution of the real code (SYMX) + z3 (QF_LRA) per path cell, counterexample replay"),
}
NA = {}

def main():
    checks = []
    for pid, c in sorted(CHECKS.items()):
        checks.append({
            "property_id": pid,
            "quick_cmd": f"./check {pid} --tier quick",
            "thorough_cmd": f"./check {pid} --tier thorough",
            "evidence_file": f"/verif/evidence/{pid}.json",
            "replay_cmd_template": "./check " + pid + " --replay {path}",
            "engine": "symx",
            "level_claimed": {"category": c["level"], "text": c["text"], "design_ref": c["design"]},
            "level_note": c.get("note", SYMX_NOTE),
            "technique": c["technique"],
        })
    na = []
    for pid in sorted(props):
        if pid not in CHECKS:
            na.append({"property_id": pid, "reason": NA.get(pid, "check not built yet (work in progress; see DESIGN.md section 4)")})
    m = {
        "version": 1,
        "setup_cmd": "./bin/setup.sh",
        "hooks": {"guard": "SHAPEPY_VERIF", "enable": "no source hooks: the stubs are injected into the shapepy module namespaces at run time by /verif/symx/shims.py",
                  "baseline_off_cmd": "cd /repo && /venv/bin/python -m pytest -ra -q -p no:cacheprovider --timeout=900 --continue-on-collection-errors",
                  "source_commits": [], "add_only": True},
        "engines": [
            {"name": "symx", "path": "/verif/symx", "serves_properties": sorted(CHECKS),
             "kind_free_text": "dynamic symbolic execution of the real shapepy code over exact symbolic reals (polynomial path conditions), z3 as decision procedure, path-exhaustive exploration, replay of every witness on the plain library"},
        ],
        "checks": checks,
        "notes": "See DESIGN.md. Exit 0 = held on everything explored (KNOWN-FINDING lines for listed findings), 1 = VIOLATION, 3 = harness error.",
        "not_applicable": na,
    }
    json.dump(m, open(os.path.join(ROOT, "MANIFEST.json"), "w"), indent=1)
    print("MANIFEST.json:", len(checks), "checks,", len(na), "not applicable")

if __name__ == "__main__":
    main()
