#!/usr/bin/env python3
"""regenerate MANIFEST.json from the registry below (keeps it schema-valid)"""
import json, os
ROOT = os.path.dirname(os.path.dirname(os.path.abspath(__file__)))
props = {json.loads(l)["id"]: json.loads(l) for l in open(os.path.join(ROOT, "properties.jsonl"))}

SYMX_NOTE = ("Bounded: exact-real semantics (int/Fraction inputs), polygonal catalogue families with <= 8 edges and the stated number of "
             "symbolic reals; cells inside a tolerance band, intractable or undecided cells are counted, not claimed. Trusted: z3, Python, the stubs "
             "of symx/shims.py (float/int/round, sqrt, atan2 specification, set, cos/sin pair), the polynomial normaliser (cross-checked by replaying "
             "every path witness on the plain library), crossing-number = interior.")

CHECKS = {
    "C02": dict(level="model_checking", design="4/C02",
                text="Path-exhaustive symbolic execution of the real contains_point/`in` with the query point symbolic over the whole plane; the path "
                     "conditions partition the plane and z3 decides on every cell, for all its points, that the answer equals the crossing-number truth "
                     "(off the boundary) or the boundary flag (on it). Curved shapes (circle arcs, quadratic/cubic chains, concrete control points): outside the control boxes of "
                     "the curved pieces the answer equals the region of the sampled chords (= the curved region there by the convex-hull property); cells inside a control box run the "
                     "Newton projection and are spot-checked against the exact curved region (z3 over the reals at the witness). Every cell witness is replayed on the plain library.",
                technique="symbolic execution of the real code (SYMX) + z3 (QF_LRA) per path cell, counterexample replay"),
    "C01": dict(level="model_checking", design="4/C01",
                text="The real operators (| & - ^ ~ + * unary -, nested expressions) executed under SYMX with one operand translated by a symbolic amount; "
                     "the explored path conditions partition the parameter range, and on every cell z3 decides, with the query point free, that the region "
                     "denoted by the returned shape equals the Boolean combination of the operand regions off their boundaries; raising / non-returning "
                     "paths are violations where z3 finds a parameter with transversal boundaries. Witnesses and counterexamples replayed on the plain library. "
                     "Operands with quadratic sides: 20 concrete placements x 4 operators on the unstubbed library, z3 (QF_NRA) decides over all points of the plane that the region "
                     "bounded by the returned pieces is the Boolean combination (exact cap oracle), result chains closed, operands unchanged as regions.",
                technique="symbolic execution of the real code (SYMX) + z3 per path cell, free query point, counterexample replay"),
    "C05": dict(level="model_checking", design="4/C05",
                text="Operators and the real integrator executed under SYMX on symbolically translated operands; the inclusion-exclusion identities "
                     "for all moments of order <= 2 become polynomial identities in the parameter that z3 decides on every path cell.",
                technique="symbolic execution of the real code (SYMX) + z3 polynomial identities per path cell"),
    "C06": dict(level="model_checking", design="4/C06",
                text="Per path cell of the operator explorations z3 decides well-formedness of the returned shape for all parameter values: no zero-length "
                     "piece, no zero-area curve, no crossing among result edges, Connected/Disjoint structure (holes inside outer and apart; components disjoint, "
                     "query point free), kind of ~result per the documented table, junction sharing; the five singleton laws on symbolically translated catalogue shapes; "
                     "the same structure obligations for results with quadratic sides (concrete placements, query point free, QF_NRA).",
                technique="symbolic execution of the real code (SYMX) + z3 structural obligations per path cell"),
    "C13": dict(level="model_checking", design="4/C13",
                text="Kind tracking in SYMX: on every path of the operator/intersection/integral/move/scale explorations no Python float may have entered "
                     "an output value (all parameter values of each cell); each cell witness is replayed on real Fractions and every output is type-checked and "
                     "compared exactly with the exact rational of the symbolic run; regression witnesses for the repaired limit_denominator defect.",
                technique="symbolic execution with exact/float kind tags (SYMX) + z3 path exploration; exact typed replay of each cell witness"),
    "C03": dict(level="model_checking", design="4/C03",
                text="Real `B(t) in A`, `A in B(t)`, contains_jordan(J(t), flag) under SYMX for all kind pairs; per path cell z3 decides: answer True => no point "
                     "of the inner region/curve outside the outer one (query point / curve parameter free); answer False => (quantified LRA) no parameter of the cell at "
                     "which everything is contained. Replays decide the exact subset relation at the witness by an existential z3 query over the concrete polygons. "
                     "Shapes with quadratic sides (concrete placements): the escape query exists p in inner minus outer decided over all points (QF_NRA).",
                technique="symbolic execution of the real code (SYMX) + z3 (QF_LRA and quantified LRA) per path cell, counterexample replay"),
    "C14": dict(level="model_checking", design="4/C14",
                text="Real JordanCurve.intersection (all flag combinations), swapped operands and A & B under SYMX on polygon pairs with one curve translated symbolically; "
                     "per path cell z3 decides ranges, common-point identities, completeness w.r.t. the proper-crossing predicate of every edge pair, the (None, None) "
                     "encoding, swap symmetry and exact flag filtering. Curves with quadratic pieces (concrete placements): completeness decided over all parameter pairs "
                     "(exists (u,v): A_i(u) = B_j(v) away from every reported tuple must be unsat, QF_NRA), reported tuples evaluated exactly.",
                technique="symbolic execution of the real code (SYMX) + z3 per path cell (polynomial identities, orientation predicates)"),
    "C18": dict(level="model_checking", design="4/C18",
                text="PlanarCurve evaluation, all derivatives and split executed under SYMX with every control point, the parameter and the split nodes symbolic "
                     "(degrees 1..6): z3 proves the executed arithmetic (raw expression DAG) equal to independent Bernstein/blossom terms for all inputs; box() "
                     "containment for t in [0,1]; point-on-segment for straight segments with a symbolic point; wrap logic of the winding contribution.",
                technique="symbolic execution of the real code (SYMX, raw expression DAG) + z3 non-linear real arithmetic identities"),
    "C04": dict(level="model_checking", design="4/C04",
                text="IntegrateShape.polynomial/area/float executed under SYMX on polygons with all vertices symbolic: z3 proves the executed quadrature arithmetic equal "
                     "to the exact term-wise integral for all vertex positions and exponents up to the stated order; sign convention of complements; composite shapes "
                     "translated symbolically; exact area of closed chains with quadratic/cubic pieces and symbolic control points.",
                technique="symbolic execution of the real code (SYMX, raw expression DAG) + z3 polynomial identities"),
    "C09": dict(level="model_checking", design="4/C09",
                text="move/scale/rotate executed under SYMX with all polygon vertices and the transformation parameters symbolic: z3 proves vertex images, identity of the "
                     "returned object, moments of order <= 2 of the image (integrator queried before and after), |det| area scaling and restoration by the inverse; composite and "
                     "unbounded shapes: images, kind, and T(p) in T(S) <=> p in S with the query point free.",
                technique="symbolic execution of the real code (SYMX, raw expression DAG) + z3 polynomial identities / QF_LRA"),
    "C15": dict(level="model_checking", design="4/C15",
                text="JordanCurve.split with symbolic split parameters on catalogue polygons (every ordering / repetition / near-0-1 case is a path cell): z3 decides the new "
                     "vertex list is the original with the junctions P_i + n(P_{i+1}-P_i) inserted in order, no piece with library-equal end points, signed area unchanged, "
                     "identity sharing; with concrete parameters and a symbolic translation: clean() restores the segmentation, is idempotent, and the split curve == the original.",
                technique="symbolic execution of the real code (SYMX) + z3 per path cell"),
    "C17": dict(level="model_checking", design="4/C17",
                text="One closed chain with all control points symbolic (segment degrees 1..3) through from_ctrlpoints / from_segments / from_vertices under SYMX: identical "
                     "vertices, segments, degrees and shared junction objects, exact area, box() = bounding box of the control points over all min/max path cells, sign of "
                     "float(curve) = orientation; chains with a symbolic junction gap are rejected on every path where the gap exceeds 1e-9.",
                technique="symbolic execution of the real code (SYMX) + z3 per path cell"),
    "C20": dict(level="model_checking", design="4/C20",
                text="ShapePloter.plot executed under SYMX with matplotlib Path/PathPatch/axes replaced by recorders, boundary chains of degree 1..3 with symbolic control points "
                     "and catalogue shapes of all kinds translated symbolically: the recorded vertex/code sequences are, as identical polynomials, the boundary retraced segment by "
                     "segment and closed; one filled path per component, one outline per curve, background iff unbounded, Empty/Whole rules; control points unchanged. Replays "
                     "run on real matplotlib (Agg) objects.",
                technique="symbolic execution of the real code (SYMX) with recorder stubs + z3 path exploration; structural identity of recorded paths"),
    "C08": dict(level="model_checking", design="4/C08",
                text="R = op(A, B(t)) under SYMX for all operators, copies, constructors and queries, every short-cut branch reached by path exploration; then one of {R, A, B} is "
                     "mutated in place with symbolic parameters and every control-point coordinate of the others must stay the identical polynomial (any shared Point2D/segment/"
                     "curve shows as a dependence on the mutation parameters); operands denote the same region after the call (z3, query point free).",
                technique="symbolic execution of the real code (SYMX) with symbolic in-place mutation; structural independence + z3 region obligations per path cell"),
    "C10": dict(level="model_checking", design="4/C10",
                text="Histories of length 3 over in-place transformations (symbolic parameters), queries and operators under SYMX: after every prefix the live object's answers "
                     "(area, moment, signed lengths, orientation, box, point containment, shape containment, kind) are identical on the whole path cell to those of a deep copy "
                     "taken then; a second question after a first on the same (possibly split-in-place) operands gives the same kind, area and region (z3, free query point) as on "
                     "fresh operands.",
                technique="symbolic execution of operation histories on the real code (SYMX) + z3 per path cell; live-vs-deepcopy identities"),
    "C07": dict(level="model_checking", design="4/C07",
                text="X == Y, Y == X, X != Y, X == X under SYMX for descriptions of one polygon (rotated vertex list, redundant vertices, reversed orientation) at a symbolic common "
                     "translation with Y shifted by a symbolic s, and for Simple/Connected/Disjoint shapes built by constructor, reordered, or by operators: on every path cell "
                     "z3 decides bool-ness, symmetry, consistency with !=, and that the answer is True exactly where s = 0 (1e-5 band excluded).",
                technique="symbolic execution of the real code (SYMX) + z3 per path cell"),
    "C19": dict(level="model_checking", design="4/C19",
                text="ConnectedShape([...]) / DisjointShape([...]) under SYMX for every ordering of valid member lists with one member translated symbolically inside its validity "
                     "range: z3 decides per path cell (query point free) that the constructed object, the operator-built object and the Boolean combination of the member regions "
                     "coincide, complement, == both ways, kinds, identical area/moments; DisjointShape([S]) unshared copy, empty lists Empty.",
                technique="symbolic execution of the real code (SYMX) + z3 per path cell"),
    "C12": dict(level="model_checking", design="4/C12",
                text="T(A) op T(B) under SYMX with the similarity parameter symbolic (uniform scale s in [1e-3, 1e5]; common translation up to 1e6; operands also rotated by exact "
                     "Pythagorean angles): on every path cell z3 decides, with the query point free, that the result mapped back by T^-1 denotes A op B (independent oracle on the "
                     "concrete operands), that kind is that of the identity run and area = s^2 * area; T(p) in T(S) <=> p in S with symbolic p.",
                technique="symbolic execution of the real code (SYMX) with a symbolic similarity parameter + z3 per path cell"),
    "C16": dict(level="model_checking", design="4/C16",
                text="Primitive.square/triangle/regular_polygon(4)/polygon under SYMX with symbolic size and centre (vertex formulas, closed-form area, orientation, centre in / far "
                     "point out, ValueError for non-positive size on every path); Primitive.circle with symbolic radius and centre, ndivangle 4..64: z3 (non-linear reals, curve "
                     "parameter free) decides that every arc stays in the quadratic-approximation band and the integrated area lies in [pi r^2, pi(1+delta)^2 r^2]; invalid integer "
                     "parameters raise ValueError.",
                technique="symbolic execution of the real code (SYMX) + z3 (QF_NRA band lemma per arc, identities)"),
    "C11": dict(level="other", design="2.4, 4/C11",
                text="AST->SMT crash-point model regenerated from the current sources: every non-in-place function that applies invert/move/scale/rotate to an operand-derived "
                     "object is translated into z3 terms (each call / comparison may raise; loops unrolled to 3; try/finally structural; crash location symbolic) and z3 decides "
                     "whether a crash can leave an operand mutated; models are replayed by raising from a line-trace hook at the reported line while operators/containment/equality "
                     "run on catalogue shapes, comparing operand region snapshots. In-place transformations: z3 model of mutation-before-validation, replayed with invalid arguments.",
                technique="AST-to-SMT bounded crash-point model (z3) of the real source + fault-injection replay",
                note="Bounded: single fault per call, loops unrolled to 3, faults at call boundaries / line granularity. Trusted: z3, the AST translator's classification of in-place "
                     "mutators and fresh objects (validated by the replays), that split/clean are region preserving (C15)."),
}
NA = {}

def main():
    checks = []
    for pid, c in sorted(CHECKS.items()):
        checks.append({
            "property_id": pid,
            "quick_cmd": f"./check {pid} --tier quick",
            "thorough_cmd": f"./check {pid} --tier thorough",
            "evidence_file": f"/verif/evidence/{pid}.json",
            "replay_cmd_template": "./check " + pid + " --replay {path}",
            "engine": "symx",
            "level_claimed": {"category": c["level"], "text": c["text"], "design_ref": c["design"]},
            "level_note": c.get("note", SYMX_NOTE),
            "technique": c["technique"],
        })
    na = []
    for pid in sorted(props):
        if pid not in CHECKS:
            na.append({"property_id": pid, "reason": NA.get(pid, "check not built yet (work in progress; see DESIGN.md section 4)")})
    m = {
        "version": 1,
        "setup_cmd": "./bin/setup.sh",
        "hooks": {"guard": "SHAPEPY_VERIF", "enable": "no source hooks: the stubs are injected into the shapepy module namespaces at run time by /verif/symx/shims.py",
                  "baseline_off_cmd": "cd /repo && /venv/bin/python -m pytest -ra -q -p no:cacheprovider --timeout=900 --continue-on-collection-errors",
                  "source_commits": [], "add_only": True},
        "engines": [
            {"name": "symx", "path": "/verif/symx", "serves_properties": sorted(CHECKS),
             "kind_free_text": "dynamic symbolic execution of the real shapepy code over exact symbolic reals (polynomial path conditions), z3 as decision procedure, path-exhaustive exploration, replay of every witness on the plain library"},
        ],
        "checks": checks,
        "notes": "See DESIGN.md. Exit 0 = held on everything explored (KNOWN-FINDING lines for listed findings), 1 = VIOLATION, 3 = harness error.",
        "not_applicable": na,
    }
    json.dump(m, open(os.path.join(ROOT, "MANIFEST.json"), "w"), indent=1)
    print("MANIFEST.json:", len(checks), "checks,", len(na), "not applicable")

if __name__ == "__main__":
    main()
