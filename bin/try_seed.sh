#!/bin/sh
# usage: try_seed.sh <seed-id> <check> [tier]  -- apply the seeded patch to /repo, run the check, undo
# SEED_REPO (default /repo): the tree the patch is applied to; a scratch worktree lets the matrix run beside other work
id=$1; chk=$2; tier=${3:-quick}
V=$(cd "$(dirname "$0")/.." && pwd); REPO=${SEED_REPO:-/repo}
cd $V
[ -z "$(git -C $REPO status --porcelain)" ] || { echo "refusing: $REPO has uncommitted changes"; exit 2; }
git -C $REPO apply $V/seeded/$id/patch.diff || { echo "$id: patch does not apply"; exit 2; }
SHAPEPY_SRC=$REPO/src ./check $chk --tier $tier > /tmp/try_${id}_$chk.log 2>&1; rc=$?
git -C $REPO checkout -- . 
nv=$(grep -c '^VIOLATION' /tmp/try_${id}_$chk.log)
echo "seed=$id check=$chk tier=$tier exit=$rc violations_printed=$nv :: $(grep -m1 -A1 '^VIOLATION' /tmp/try_${id}_$chk.log | tail -1 | cut -c1-250)"
