#!/bin/sh
# usage: try_seed.sh <seed-id> <check> [tier]  -- apply the seeded patch to /repo, run the check, undo
id=$1; chk=$2; tier=${3:-quick}
cd /verif
[ -z "$(git -C /repo status --porcelain)" ] || { echo "refusing: /repo has uncommitted changes"; exit 2; }
git -C /repo apply /verif/seeded/$id/patch.diff || { echo "$id: patch does not apply"; exit 2; }
./check $chk --tier $tier > /tmp/try_${id}_$chk.log 2>&1; rc=$?
git -C /repo checkout -- . 
nv=$(grep -c '^VIOLATION' /tmp/try_${id}_$chk.log)
echo "seed=$id check=$chk tier=$tier exit=$rc violations_printed=$nv :: $(grep -m1 -A1 '^VIOLATION' /tmp/try_${id}_$chk.log | tail -1 | cut -c1-250)"
