#!/bin/sh
# Build /verif/.venv offline: overlay of /venv (the repository's interpreter and
# dependencies) plus z3-solver, cvc5 and crosshair-tool from the local wheelhouse.
set -e
cd "$(dirname "$0")/.."
V=.venv
if [ ! -x $V/bin/python ] || ! $V/bin/python -c "import z3, cvc5, crosshair, numpy, pynurbs" 2>/dev/null; then
  rm -rf $V
  /venv/bin/python -m venv $V
  SP=$($V/bin/python -c "import sysconfig; print(sysconfig.get_paths()['purelib'])")
  echo "import site; site.addsitedir('/venv/lib/python3.12/site-packages')" > "$SP/_overlay.pth"
  PIP_NO_INDEX=1 $V/bin/pip install -q --no-index --find-links /opt/veriftools/wheels z3-solver cvc5 crosshair-tool
fi
$V/bin/python -c "import z3, cvc5, crosshair, numpy, pynurbs, shapepy; print('verif venv ok: z3', z3.get_version_string())"
