#!/bin/sh
# run every seeded change against the check(s) that are expected to catch it; writes seeded/RESULTS.md
# (applies each patch to /repo, runs the quick tier, restores the tree; refuses if /repo is dirty)
cd "$(dirname "$0")/.."
out=seeded/RESULTS.md
echo "| seed | check | exit | violations printed | first violation |" > $out
echo "|---|---|---|---|---|" >> $out
while read seed chk; do
  [ -z "$seed" ] && continue
  if ! git -C ${SEED_REPO:-/repo} apply --check $PWD/seeded/$seed/patch.diff 2>/dev/null; then
    echo "| $seed | $chk | - | - | patch does not apply to the current tree (see meta.json: superseded) |" >> $out; continue
  fi
  line=$(./bin/try_seed.sh $seed $chk)
  rc=$(echo "$line" | sed 's/.*exit=\([0-9]*\).*/\1/'); nv=$(echo "$line" | sed 's/.*violations_printed=\([0-9]*\).*/\1/'); first=$(echo "$line" | sed 's/.*:: *//' | cut -c1-160 | tr '|' '/')
  echo "| $seed | $chk | $rc | $nv | $first |" >> $out
  echo "$line" | cut -c1-200
done <<LIST
C01a C01
C01b C01
C01b C06
C02a C02
C02c C02
C03a C03
C03b C03
C04a C04
C04a C09
C04c C04
C05a C03
C05c C05
C06a C06
C06a C10
C06b C06
C07a C07
C07c C07
C08a C08
C08c C08
C09a C09
C09c C09
C10a C10
C10c C10
C11a C11
C11c C11
C12b C12
C13b C13
C14a C14
C14b C14
C15a C15
C15c C15
C16b C16
C17b C17
C18b C18
C19b C19
C19b C06
C20b C20
C01a C10
C01d C01
C02d C02
C03d C03
C06d C06
C12d C12
C13d C13
C14d C14
C16d C16
C17d C17
C18d C18
C19d C19
C20d C20
C04e C04
C05e C05
C05e C01
C07e C07
C08e C08
C09e C10
C10e C08
C11e C11
C15e C15
C01f C01
C02f C02
C02f C10
C03f C03
C05f C05
C05f C06
C06f C06
C14f C14
C17f C17
C17f C10
C19f C19
C19f C02
C09e C02
C04g C04
C07g C07
C08g C08
C09g C09
C10g C10
C12g C12
C12g C13
C13g C13
C15g C15
C16g C16
C18g C18
C18g C02
C20g C20
C03h C03
C06h C06
C11h C11
C14h C14
LIST
cat $out
