#!/bin/sh
# usage: confirm_seed.sh <seed-id> <dir with patch.diff demo.py meta.json>
# confirms in a scratch worktree of /repo HEAD: patch applies, suite passes with it, demo fails
# with it and passes without it; then stores the seed under /verif/seeded/<seed-id>/
id=$1; src=$2
wt=/tmp/confirm_$id
rm -rf $wt; git -C /repo worktree prune
git -C /repo worktree add -q --detach $wt HEAD || exit 2
res="{}"
( cd $wt && git apply $src/patch.diff ) || { echo "$id: patch does not apply"; git -C /repo worktree remove --force $wt; exit 2; }
PYTHONPATH=$wt/src /venv/bin/python $src/demo.py >/tmp/confirm_$id.demo_mut 2>&1; d_mut=$?
git -C $wt stash -q; PYTHONPATH=$wt/src /venv/bin/python $src/demo.py >/tmp/confirm_$id.demo_orig 2>&1; d_orig=$?; git -C $wt stash pop -q
( cd $wt && PYTHONPATH=$wt/src /venv/bin/python -m pytest -q -p no:cacheprovider --timeout=900 tests 2>&1 | tail -1 ) > /tmp/confirm_$id.tests
t=$(cat /tmp/confirm_$id.tests)
echo "$id: demo_with_patch_exit=$d_mut demo_without_patch_exit=$d_orig tests: $t"
ok=0
case "$t" in *"225 passed"*) ok=1;; esac
if [ $ok = 1 ] && [ $d_mut != 0 ] && [ $d_orig = 0 ]; then
  mkdir -p /verif/seeded/$id
  cp $src/patch.diff $src/demo.py /verif/seeded/$id/
  /venv/bin/python - "$id" "$src" "$t" "$d_mut" "$d_orig" <<'PY'
import json, sys
id, src, t, dm, do = sys.argv[1:]
try: meta = json.load(open(src + "/meta.json"))
except Exception: meta = {}
meta["seed_id"] = id
meta["confirmed"] = {"tests_with_patch": t.strip(), "demo_exit_with_patch": int(dm), "demo_exit_without_patch": int(do),
                     "how": "scratch worktree of /repo HEAD; git apply patch.diff; PYTHONPATH=<wt>/src /venv/bin/python -m pytest tests; PYTHONPATH=<wt>/src python demo.py with and without the patch"}
json.dump(meta, open(f"/verif/seeded/{id}/meta.json", "w"), indent=1)
PY
  echo "$id: CONFIRMED"
else
  echo "$id: NOT CONFIRMED"
fi
git -C /repo worktree remove --force $wt
rm -f /tmp/confirm_$id.*
